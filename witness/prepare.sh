#!/bin/sh
# warm the shared witness target directory (dependencies of kanal) - offline; failures here are not fatal
cd "$(dirname "$0")/.."
./kv rule T1 --config default >/dev/null 2>&1 || true
exit 0
