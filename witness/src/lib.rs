//! Compile-time witnesses for kanal (C20, and the pinning/borrow clauses of C07).
//! Nothing here is ever executed: compiling twins are `no_run`, negatives are `compile_fail` with the
//! expected error code (checked on nightly).  Every negative has a twin that differs only in the
//! offending bound / type and must compile, so a witness cannot pass because of a typo.
#![allow(dead_code, unused)]

pub fn is_send<X: Send>() {}
pub fn is_sync<X: Sync>() {}
pub fn is_unpin<X: Unpin>() {}

/// T1: universal positive. For every `T: Send` all four handles are Send + Sync and the futures
/// and the stream are Send.  This function is type-checked whenever the crate is built.
pub fn t1_positive<'a, T: Send + 'a>() {
    is_send::<kanal::Sender<T>>();
    is_sync::<kanal::Sender<T>>();
    is_send::<kanal::AsyncSender<T>>();
    is_sync::<kanal::AsyncSender<T>>();
    is_send::<kanal::Receiver<T>>();
    is_sync::<kanal::Receiver<T>>();
    is_send::<kanal::AsyncReceiver<T>>();
    is_sync::<kanal::AsyncReceiver<T>>();
    is_send::<kanal::SendFuture<'a, T>>();
    is_send::<kanal::ReceiveFuture<'a, T>>();
    is_send::<kanal::ReceiveStream<'a, T>>();
}

/// T2 negative: without `T: Send`, `kanal::Sender<T>: Send` must not hold.
/// ```compile_fail,E0277
/// fn neg<T>() { kanal_witness::is_send::<kanal::Sender<T>>() }
/// ```
/// Twin (differs only in the bound) must compile:
/// ```no_run
/// fn twin<T: Send>() { kanal_witness::is_send::<kanal::Sender<T>>() }
/// ```
pub mod t2_sender_send {}

/// T2 negative: without `T: Send`, `kanal::Sender<T>: Sync` must not hold.
/// ```compile_fail,E0277
/// fn neg<T>() { kanal_witness::is_sync::<kanal::Sender<T>>() }
/// ```
/// Twin (differs only in the bound) must compile:
/// ```no_run
/// fn twin<T: Send>() { kanal_witness::is_sync::<kanal::Sender<T>>() }
/// ```
pub mod t2_sender_sync {}

/// T2 negative: without `T: Send`, `kanal::AsyncSender<T>: Send` must not hold.
/// ```compile_fail,E0277
/// fn neg<T>() { kanal_witness::is_send::<kanal::AsyncSender<T>>() }
/// ```
/// Twin (differs only in the bound) must compile:
/// ```no_run
/// fn twin<T: Send>() { kanal_witness::is_send::<kanal::AsyncSender<T>>() }
/// ```
pub mod t2_asyncsender_send {}

/// T2 negative: without `T: Send`, `kanal::AsyncSender<T>: Sync` must not hold.
/// ```compile_fail,E0277
/// fn neg<T>() { kanal_witness::is_sync::<kanal::AsyncSender<T>>() }
/// ```
/// Twin (differs only in the bound) must compile:
/// ```no_run
/// fn twin<T: Send>() { kanal_witness::is_sync::<kanal::AsyncSender<T>>() }
/// ```
pub mod t2_asyncsender_sync {}

/// T2 negative: without `T: Send`, `kanal::Receiver<T>: Send` must not hold.
/// ```compile_fail,E0277
/// fn neg<T>() { kanal_witness::is_send::<kanal::Receiver<T>>() }
/// ```
/// Twin (differs only in the bound) must compile:
/// ```no_run
/// fn twin<T: Send>() { kanal_witness::is_send::<kanal::Receiver<T>>() }
/// ```
pub mod t2_receiver_send {}

/// T2 negative: without `T: Send`, `kanal::Receiver<T>: Sync` must not hold.
/// ```compile_fail,E0277
/// fn neg<T>() { kanal_witness::is_sync::<kanal::Receiver<T>>() }
/// ```
/// Twin (differs only in the bound) must compile:
/// ```no_run
/// fn twin<T: Send>() { kanal_witness::is_sync::<kanal::Receiver<T>>() }
/// ```
pub mod t2_receiver_sync {}

/// T2 negative: without `T: Send`, `kanal::AsyncReceiver<T>: Send` must not hold.
/// ```compile_fail,E0277
/// fn neg<T>() { kanal_witness::is_send::<kanal::AsyncReceiver<T>>() }
/// ```
/// Twin (differs only in the bound) must compile:
/// ```no_run
/// fn twin<T: Send>() { kanal_witness::is_send::<kanal::AsyncReceiver<T>>() }
/// ```
pub mod t2_asyncreceiver_send {}

/// T2 negative: without `T: Send`, `kanal::AsyncReceiver<T>: Sync` must not hold.
/// ```compile_fail,E0277
/// fn neg<T>() { kanal_witness::is_sync::<kanal::AsyncReceiver<T>>() }
/// ```
/// Twin (differs only in the bound) must compile:
/// ```no_run
/// fn twin<T: Send>() { kanal_witness::is_sync::<kanal::AsyncReceiver<T>>() }
/// ```
pub mod t2_asyncreceiver_sync {}

/// T2 negative: without `T: Send`, `kanal::SendFuture<'a, T>: Send` must not hold.
/// ```compile_fail,E0277
/// fn neg<'a, T: 'a>() { kanal_witness::is_send::<kanal::SendFuture<'a, T>>() }
/// ```
/// Twin (differs only in the bound) must compile:
/// ```no_run
/// fn twin<'a, T: Send + 'a>() { kanal_witness::is_send::<kanal::SendFuture<'a, T>>() }
/// ```
pub mod t2_sendfuture_send {}

/// T2 negative: without `T: Send`, `kanal::ReceiveFuture<'a, T>: Send` must not hold.
/// ```compile_fail,E0277
/// fn neg<'a, T: 'a>() { kanal_witness::is_send::<kanal::ReceiveFuture<'a, T>>() }
/// ```
/// Twin (differs only in the bound) must compile:
/// ```no_run
/// fn twin<'a, T: Send + 'a>() { kanal_witness::is_send::<kanal::ReceiveFuture<'a, T>>() }
/// ```
pub mod t2_receivefuture_send {}

/// T2 negative: without `T: Send`, `kanal::ReceiveStream<'a, T>: Send` must not hold.
/// ```compile_fail,E0277
/// fn neg<'a, T: 'a>() { kanal_witness::is_send::<kanal::ReceiveStream<'a, T>>() }
/// ```
/// Twin (differs only in the bound) must compile:
/// ```no_run
/// fn twin<'a, T: Send + 'a>() { kanal_witness::is_send::<kanal::ReceiveStream<'a, T>>() }
/// ```
pub mod t2_receivestream_send {}

/// a newtype holding a raw pointer: not Send, not Sync
pub struct RawBox(pub *const u8);
/// its Send twin
pub struct SendBox(pub usize);

/// T3 negative: a sender of `std::rc::Rc<()>` cannot be moved into another thread.
/// ```compile_fail,E0277
/// let (s, r) = kanal::bounded::<std::rc::Rc<()>>(1);
/// std::thread::spawn(move || { drop(s); });
/// ```
/// Twin with `std::sync::Arc<()>`:
/// ```no_run
/// let (s, r) = kanal::bounded::<std::sync::Arc<()>>(1);
/// std::thread::spawn(move || { drop(s); });
/// ```
pub mod t3_rc_sender {}

/// T3 negative: a receiver of `std::rc::Rc<()>` cannot be moved into another thread.
/// ```compile_fail,E0277
/// let (s, r) = kanal::bounded::<std::rc::Rc<()>>(1);
/// std::thread::spawn(move || { drop(r); });
/// ```
/// Twin with `std::sync::Arc<()>`:
/// ```no_run
/// let (s, r) = kanal::bounded::<std::sync::Arc<()>>(1);
/// std::thread::spawn(move || { drop(r); });
/// ```
pub mod t3_rc_receiver {}

/// T3 negative: a asyncsender of `std::rc::Rc<()>` cannot be moved into another thread.
/// ```compile_fail,E0277
/// let (s, r) = kanal::bounded_async::<std::rc::Rc<()>>(1);
/// std::thread::spawn(move || { drop(s); });
/// ```
/// Twin with `std::sync::Arc<()>`:
/// ```no_run
/// let (s, r) = kanal::bounded_async::<std::sync::Arc<()>>(1);
/// std::thread::spawn(move || { drop(s); });
/// ```
pub mod t3_rc_asyncsender {}

/// T3 negative: a asyncreceiver of `std::rc::Rc<()>` cannot be moved into another thread.
/// ```compile_fail,E0277
/// let (s, r) = kanal::bounded_async::<std::rc::Rc<()>>(1);
/// std::thread::spawn(move || { drop(r); });
/// ```
/// Twin with `std::sync::Arc<()>`:
/// ```no_run
/// let (s, r) = kanal::bounded_async::<std::sync::Arc<()>>(1);
/// std::thread::spawn(move || { drop(r); });
/// ```
pub mod t3_rc_asyncreceiver {}

/// T3 negative: a sender of `std::rc::Rc<()>` cannot be shared with another thread by reference.
/// ```compile_fail,E0277
/// let (s, r) = kanal::bounded::<std::rc::Rc<()>>(1);
/// std::thread::scope(|sc| { sc.spawn(|| { let _x = &s; }); });
/// ```
/// ```no_run
/// let (s, r) = kanal::bounded::<std::sync::Arc<()>>(1);
/// std::thread::scope(|sc| { sc.spawn(|| { let _x = &s; }); });
/// ```
pub mod t3_rc_shared {}

/// T3 negative: the send/receive futures and the stream of a `std::rc::Rc<()>` channel are not Send.
/// ```compile_fail,E0277
/// fn need_send<X: Send>(_x: X) {}
/// let (s, r) = kanal::bounded_async::<std::rc::Rc<()>>(1);
/// need_send(r.recv());
/// ```
/// ```compile_fail,E0277
/// fn need_send<X: Send>(_x: X) {}
/// let (s, r) = kanal::bounded_async::<std::rc::Rc<()>>(1);
/// need_send(r.stream());
/// ```
/// ```no_run
/// fn need_send<X: Send>(_x: X) {}
/// let (s, r) = kanal::bounded_async::<std::sync::Arc<()>>(1);
/// need_send(r.recv());
/// need_send(r.stream());
/// ```
pub mod t3_rc_futures {}

/// T3 negative: a sender of `kanal_witness::RawBox` cannot be moved into another thread.
/// ```compile_fail,E0277
/// let (s, r) = kanal::bounded::<kanal_witness::RawBox>(1);
/// std::thread::spawn(move || { drop(s); });
/// ```
/// Twin with `kanal_witness::SendBox`:
/// ```no_run
/// let (s, r) = kanal::bounded::<kanal_witness::SendBox>(1);
/// std::thread::spawn(move || { drop(s); });
/// ```
pub mod t3_rawptr_sender {}

/// T3 negative: a receiver of `kanal_witness::RawBox` cannot be moved into another thread.
/// ```compile_fail,E0277
/// let (s, r) = kanal::bounded::<kanal_witness::RawBox>(1);
/// std::thread::spawn(move || { drop(r); });
/// ```
/// Twin with `kanal_witness::SendBox`:
/// ```no_run
/// let (s, r) = kanal::bounded::<kanal_witness::SendBox>(1);
/// std::thread::spawn(move || { drop(r); });
/// ```
pub mod t3_rawptr_receiver {}

/// T3 negative: a asyncsender of `kanal_witness::RawBox` cannot be moved into another thread.
/// ```compile_fail,E0277
/// let (s, r) = kanal::bounded_async::<kanal_witness::RawBox>(1);
/// std::thread::spawn(move || { drop(s); });
/// ```
/// Twin with `kanal_witness::SendBox`:
/// ```no_run
/// let (s, r) = kanal::bounded_async::<kanal_witness::SendBox>(1);
/// std::thread::spawn(move || { drop(s); });
/// ```
pub mod t3_rawptr_asyncsender {}

/// T3 negative: a asyncreceiver of `kanal_witness::RawBox` cannot be moved into another thread.
/// ```compile_fail,E0277
/// let (s, r) = kanal::bounded_async::<kanal_witness::RawBox>(1);
/// std::thread::spawn(move || { drop(r); });
/// ```
/// Twin with `kanal_witness::SendBox`:
/// ```no_run
/// let (s, r) = kanal::bounded_async::<kanal_witness::SendBox>(1);
/// std::thread::spawn(move || { drop(r); });
/// ```
pub mod t3_rawptr_asyncreceiver {}

/// T3 negative: a sender of `kanal_witness::RawBox` cannot be shared with another thread by reference.
/// ```compile_fail,E0277
/// let (s, r) = kanal::bounded::<kanal_witness::RawBox>(1);
/// std::thread::scope(|sc| { sc.spawn(|| { let _x = &s; }); });
/// ```
/// ```no_run
/// let (s, r) = kanal::bounded::<kanal_witness::SendBox>(1);
/// std::thread::scope(|sc| { sc.spawn(|| { let _x = &s; }); });
/// ```
pub mod t3_rawptr_shared {}

/// T3 negative: the send/receive futures and the stream of a `kanal_witness::RawBox` channel are not Send.
/// ```compile_fail,E0277
/// fn need_send<X: Send>(_x: X) {}
/// let (s, r) = kanal::bounded_async::<kanal_witness::RawBox>(1);
/// need_send(r.recv());
/// ```
/// ```compile_fail,E0277
/// fn need_send<X: Send>(_x: X) {}
/// let (s, r) = kanal::bounded_async::<kanal_witness::RawBox>(1);
/// need_send(r.stream());
/// ```
/// ```no_run
/// fn need_send<X: Send>(_x: X) {}
/// let (s, r) = kanal::bounded_async::<kanal_witness::SendBox>(1);
/// need_send(r.recv());
/// need_send(r.stream());
/// ```
pub mod t3_rawptr_futures {}

/// T3 negative: a sender of `&'static std::cell::Cell<u8>` cannot be moved into another thread.
/// ```compile_fail,E0277
/// let (s, r) = kanal::bounded::<&'static std::cell::Cell<u8>>(1);
/// std::thread::spawn(move || { drop(s); });
/// ```
/// Twin with `&'static std::sync::atomic::AtomicU8`:
/// ```no_run
/// let (s, r) = kanal::bounded::<&'static std::sync::atomic::AtomicU8>(1);
/// std::thread::spawn(move || { drop(s); });
/// ```
pub mod t3_cellref_sender {}

/// T3 negative: a receiver of `&'static std::cell::Cell<u8>` cannot be moved into another thread.
/// ```compile_fail,E0277
/// let (s, r) = kanal::bounded::<&'static std::cell::Cell<u8>>(1);
/// std::thread::spawn(move || { drop(r); });
/// ```
/// Twin with `&'static std::sync::atomic::AtomicU8`:
/// ```no_run
/// let (s, r) = kanal::bounded::<&'static std::sync::atomic::AtomicU8>(1);
/// std::thread::spawn(move || { drop(r); });
/// ```
pub mod t3_cellref_receiver {}

/// T3 negative: a asyncsender of `&'static std::cell::Cell<u8>` cannot be moved into another thread.
/// ```compile_fail,E0277
/// let (s, r) = kanal::bounded_async::<&'static std::cell::Cell<u8>>(1);
/// std::thread::spawn(move || { drop(s); });
/// ```
/// Twin with `&'static std::sync::atomic::AtomicU8`:
/// ```no_run
/// let (s, r) = kanal::bounded_async::<&'static std::sync::atomic::AtomicU8>(1);
/// std::thread::spawn(move || { drop(s); });
/// ```
pub mod t3_cellref_asyncsender {}

/// T3 negative: a asyncreceiver of `&'static std::cell::Cell<u8>` cannot be moved into another thread.
/// ```compile_fail,E0277
/// let (s, r) = kanal::bounded_async::<&'static std::cell::Cell<u8>>(1);
/// std::thread::spawn(move || { drop(r); });
/// ```
/// Twin with `&'static std::sync::atomic::AtomicU8`:
/// ```no_run
/// let (s, r) = kanal::bounded_async::<&'static std::sync::atomic::AtomicU8>(1);
/// std::thread::spawn(move || { drop(r); });
/// ```
pub mod t3_cellref_asyncreceiver {}

/// T3 negative: a sender of `&'static std::cell::Cell<u8>` cannot be shared with another thread by reference.
/// ```compile_fail,E0277
/// let (s, r) = kanal::bounded::<&'static std::cell::Cell<u8>>(1);
/// std::thread::scope(|sc| { sc.spawn(|| { let _x = &s; }); });
/// ```
/// ```no_run
/// let (s, r) = kanal::bounded::<&'static std::sync::atomic::AtomicU8>(1);
/// std::thread::scope(|sc| { sc.spawn(|| { let _x = &s; }); });
/// ```
pub mod t3_cellref_shared {}

/// T3 negative: the send/receive futures and the stream of a `&'static std::cell::Cell<u8>` channel are not Send.
/// ```compile_fail,E0277
/// fn need_send<X: Send>(_x: X) {}
/// let (s, r) = kanal::bounded_async::<&'static std::cell::Cell<u8>>(1);
/// need_send(r.recv());
/// ```
/// ```compile_fail,E0277
/// fn need_send<X: Send>(_x: X) {}
/// let (s, r) = kanal::bounded_async::<&'static std::cell::Cell<u8>>(1);
/// need_send(r.stream());
/// ```
/// ```no_run
/// fn need_send<X: Send>(_x: X) {}
/// let (s, r) = kanal::bounded_async::<&'static std::sync::atomic::AtomicU8>(1);
/// need_send(r.recv());
/// need_send(r.stream());
/// ```
pub mod t3_cellref_futures {}

/// T5: the futures are address-sensitive (a raw pointer to their signal sits in the wait list), so
/// they must not be `Unpin`.
/// ```compile_fail,E0277
/// fn neg<'a, T: Send + 'a>() { kanal_witness::is_unpin::<kanal::SendFuture<'a, T>>() }
/// ```
/// ```compile_fail,E0277
/// fn neg<'a, T: Send + 'a>() { kanal_witness::is_unpin::<kanal::ReceiveFuture<'a, T>>() }
/// ```
/// Twin: the handles are Unpin.
/// ```no_run
/// fn twin<T: Send>() { kanal_witness::is_unpin::<kanal::AsyncSender<T>>(); kanal_witness::is_unpin::<kanal::AsyncReceiver<T>>() }
/// ```
pub mod t5_unpin {}

/// T5: a future borrows its handle: the handle cannot be dropped or moved while the future lives.
/// ```compile_fail,E0505
/// let (s, r) = kanal::bounded_async::<u64>(0);
/// let f = s.send(1);
/// drop(s);
/// drop(f);
/// ```
/// ```compile_fail,E0505
/// let (s, r) = kanal::bounded_async::<u64>(0);
/// let f = r.recv();
/// drop(r);
/// drop(f);
/// ```
/// ```compile_fail,E0505
/// let (s, r) = kanal::bounded_async::<u64>(0);
/// let st = r.stream();
/// drop(r);
/// drop(st);
/// ```
/// ```compile_fail,E0597
/// let f = { let (s, r) = kanal::bounded_async::<u64>(0); r.recv() };
/// drop(f);
/// ```
/// Twins (future dropped first) compile:
/// ```no_run
/// let (s, r) = kanal::bounded_async::<u64>(0);
/// let f = s.send(1);
/// drop(f);
/// drop(s);
/// let g = r.recv();
/// drop(g);
/// let st = r.stream();
/// drop(st);
/// drop(r);
/// ```
pub mod t5_borrow {}

/// T5: a pinned future cannot be moved out of its pin by safe code (get_mut needs Unpin).
/// ```compile_fail,E0277
/// let (s, r) = kanal::bounded_async::<u64>(0);
/// let mut f = Box::pin(r.recv());
/// let _m: &mut kanal::ReceiveFuture<'_, u64> = f.as_mut().get_mut();
/// ```
/// ```no_run
/// let (s, r) = kanal::bounded_async::<u64>(0);
/// let mut f = Box::pin(r.recv());
/// let _p: std::pin::Pin<&mut kanal::ReceiveFuture<'_, u64>> = f.as_mut();
/// ```
pub mod t5_pin_get_mut {}
