"""Diagnostic state: fields of the shared channel state that no operation's behaviour depends on.

An observability change adds counters / gauges / names to `ChannelInternal` and updates them inside the helpers and the
operations, under the lock the operation already holds.  The helper contracts (H2-H6, L5: "changes no other channel
state") are about the state the protocol READS.  A field is *diagnostic* when, in every function of the crate other than
new read-only observers, the values read from it flow nowhere except

  * into pure integer arithmetic whose result flows on under the same restriction,
  * into a store to a diagnostic field,
  * into a branch that decides nothing but such stores: for every path that takes the branch one way there is a path
    with the identical prefix that takes it the other way, and the two paths are identical once the diagnostic events
    are removed.

Anything else (an argument of a call, a labelled protocol decision, a store to a protocol field, the return value of a
pinned operation, an assertion) makes the field ordinary state and nothing is hidden: the rules see its reads and writes
exactly as before (fail closed).  The set is computed as a greatest fixed point over all bodies of the crate.

sem.project() then drops the events of diagnostic fields, so that `push_send` with `self.blocked_sends += 1` is the
`push_send` the contract describes.
"""
import json
import os

from mir import ci_field_place

PINNED_STATE = {'queue', 'wait_list', 'recv_blocking', 'capacity', 'send_count', 'recv_count'}

PURE_INT = {
    'core::num::wrapping_add', 'core::num::wrapping_sub', 'core::num::saturating_add', 'core::num::saturating_sub',
    'core::num::wrapping_mul', 'core::num::saturating_mul', 'core::num::abs_diff',
    'std::cmp::max', 'std::cmp::min', 'std::cmp::Ord::max', 'std::cmp::Ord::min',
    'core::num::max', 'core::num::min',
}

# events that neither change nor publish anything: a body made only of these (plus stores to diagnostic fields) is an observer
READ_ONLY = {'PANIC', 'UNREACHABLE', 'LOCK', 'UNLOCK', 'TRYLOCK', 'TRYLOCK_CALL', 'RD', 'RDMEM', 'WRMEM', 'BR', 'BR?', 'RET', 'DROP', 'CALL', 'ASSERT',
             'WL.len', 'WL.is_empty', 'WL.iter', 'WL.front', 'WL.back', 'Q.iter', 'Q.front', 'Q.back', 'Q.len', 'Q.is_empty', 'Q.capacity', 'WL.capacity', 'NOW', 'INTRINSIC', 'OPT.unwrap'}

_PINNED_API = None


def pinned_api():
    global _PINNED_API
    if _PINNED_API is None:
        _PINNED_API = set(json.load(open(os.path.join(os.path.dirname(__file__), 'pinned_api.json'))))
    return _PINNED_API


_STATE_TYS = {}


def state_tys(facts):
    """type names whose fields the candidates are: ChannelInternal and its private grouping structs"""
    k = id(facts)
    if k not in _STATE_TYS:
        from mir import canon, CI_GROUPS
        tys = set()
        for n, a in facts.adts.items():
            if canon(n).split('<')[0].endswith('ChannelInternal'):
                tys.add(canon(n).split('<')[0])
                for v in a.get('variants', []):
                    for f in v.get('fields', []):
                        if f['name'] in CI_GROUPS:
                            tys.add(canon(f['ty']).split('<')[0])
        _STATE_TYS.clear()
        _STATE_TYS[k] = tys
    return _STATE_TYS[k]


def dfield(body, pl):
    """the ChannelInternal field a place denotes - by type, not only by name: `(*self).terminated` inside a method of
    ReceiveStream is not the `terminated` counter of the channel"""
    f = ci_field_place(pl)
    if f is None:
        return None
    root = pl[1][1] if pl[1][0] == 'deref' else pl[1][1][1]
    if root[0] == 'ci':
        return f
    if root[0] == 'param':
        from mir import canon
        try:
            ty = canon(body.j['locals'][root[1]]['ty'])
        except Exception:
            return None
        while ty.startswith('&') or ty.startswith('mut ') or ty.startswith('*mut ') or ty.startswith('*const '):
            ty = ty[1:] if ty.startswith('&') else ty.split(' ', 1)[1]
            ty = ty.strip()
            if ty.startswith("'"):
                ty = ty.split(' ', 1)[1] if ' ' in ty else ty
        return f if ty.split('<')[0] in state_tys(body.facts) else None
    return None


def loads_in(body, v, acc, getters, depth=0):
    """names of ChannelInternal fields whose loaded value occurs inside v (and results of getter calls)"""
    if not isinstance(v, tuple) or depth > 40:
        return
    if v and v[0] == 'load' and len(v) > 1 and isinstance(v[1], tuple):
        f = dfield(body, v[1])
        if f is not None:
            acc.add(f)
    if v and v[0] == 'call' and len(v) > 2 and v[2] in getters:
        acc.update(getters[v[2]])
    for x in v:
        if isinstance(x, tuple):
            loads_in(body, x, acc, getters, depth + 1)


def taint_of(body, data, cand, getters):
    acc = set()
    for k, v in data.items():
        if isinstance(v, tuple):
            loads_in(body, v, acc, getters)
    return acc & cand


def ev_field(body, e):
    pl = getattr(e.raw, 'place', None)
    return dfield(body, pl) if isinstance(pl, tuple) else None


def is_diag_event(body, e, D, getters):
    """an event that exists only because of diagnostic fields"""
    if e.name in ('RD', 'WR') and e.data.get('field') in D and ev_field(body, e) in D:
        return True
    if e.name == 'CALL' and e.data.get('callee') in PURE_INT and taint_of(body, {'a': e.data.get('args')}, D, getters):
        return True
    if e.name == 'BR?' and taint_of(body, {'v': e.data.get('val')}, D, getters):
        return True
    return False


def canon_events(body, evs, D, getters):
    """the path with the diagnostic events removed and call / load counters renumbered in order of appearance"""
    ren = {}

    def rn(v, depth=0):
        if not isinstance(v, tuple) or depth > 40:
            return v
        if v and v[0] == 'call' and len(v) > 1 and isinstance(v[1], int):
            n = ren.setdefault(('c', v[1]), len(ren))
            return ('call', n) + tuple(rn(x, depth + 1) for x in v[2:])
        if v and v[0] == 'load' and len(v) == 3 and isinstance(v[2], int):
            n = ren.setdefault(('l', v[2]), len(ren))
            return ('load', rn(v[1], depth + 1), n)
        return tuple(rn(x, depth + 1) for x in v)

    out = []
    for e in evs:
        if is_diag_event(body, e, D, getters) or e.name == 'RDMEM':
            continue
        out.append((e.name, tuple(sorted((k, repr(rn(v)) if isinstance(v, tuple) else repr(v)) for k, v in e.data.items()
                                         if k not in ('synthetic',)))))
    return tuple(out)


PLAIN_TYS = {'u8', 'u16', 'u32', 'u64', 'u128', 'usize', 'i8', 'i16', 'i32', 'i64', 'i128', 'isize', 'bool'}


def plain_ty(t):
    t = (t or '').replace(' ', '')
    if t in PLAIN_TYS:
        return True
    if t.startswith('std::option::Option<') and t.endswith('>'):
        inner = t[len('std::option::Option<'):-1]
        return inner in PLAIN_TYS or inner in ("&'staticstr", '&str', 'std::time::Instant')
    return t in ("&'staticstr", 'std::time::Instant')


def candidate_fields(facts):
    """non-protocol fields of ChannelInternal (and of its private grouping structs) that hold plain data: no payload, no
    drop glue - and whose name no other type of the crate uses for a field (the projection knows fields by name)"""
    from mir import canon, CI_GROUPS
    ci = None
    for n, a in facts.adts.items():
        if canon(n).split('<')[0].endswith('ChannelInternal'):
            ci = a
    if ci is None:
        return set()
    own = {}
    group_tys = set()
    for v in ci.get('variants', []):
        for f in v.get('fields', []):
            if f['name'] in CI_GROUPS:
                group_tys.add(canon(f['ty']).split('<')[0])
            else:
                own[f['name']] = f['ty']
    snapshot = set()  # plain all-integer structs (statistics snapshots handed to the user)
    for n, a in facts.adts.items():
        cn = canon(n).split('<')[0]
        fs = [f for v in a.get('variants', []) for f in v.get('fields', [])]
        if cn in group_tys:
            for f in fs:
                own[f['name']] = f['ty']
        elif a is not ci and a.get('kind') == 'Struct' and fs and all(plain_ty(f['ty']) for f in fs):
            snapshot.add(n)
    taken = set()
    for n, a in facts.adts.items():
        cn = canon(n).split('<')[0]
        if a is ci or cn in group_tys or n in snapshot:
            continue
        for v in a.get('variants', []):
            for f in v.get('fields', []):
                taken.add(f['name'])
    return {f for f, t in own.items() if f not in PINNED_STATE and plain_ty(t)}


def compute(facts):
    """-> (set of diagnostic field names, getters)"""
    import sem
    allowed = candidate_fields(facts)
    if not allowed:
        return set(), {}
    facts._diag = (set(), {})
    per_body = {}
    cand = set()
    for key, b in facts.bodies.items():
        try:
            ps = b.paths(1)
        except Exception:
            ps = None
        if not ps:
            continue
        ent = []
        touched = False
        for p in ps:
            if p.end == 'unreachable':
                continue
            evs = sem.project_raw(p)
            ent.append((p, evs))
            for e in evs:
                if e.name in ('RD', 'WR') and e.data.get('field') in allowed and ev_field(b, e) in allowed:
                    touched = True
                    cand.add(e.data['field'])
        if touched:
            per_body[key] = ent
    if not cand:
        return set(), {}
    # bodies that merely call a getter have to be looked at as well: keep every body, but only look at those that mention a
    # candidate or a getter
    all_ent = per_body
    called = set()
    for key, b in facts.bodies.items():
        for blk in b.blocks:
            t = blk['term']
            if t['k'] == 'call' and t.get('fn'):
                from mir import canon
                called.add(canon(t['fn']['path']))
    D = set(cand)
    getters = {}
    why = {}
    for _round in range(12):
        removed = set()
        new_getters = {}

        def drop(fs, key, reason):
            for f in fs:
                if f in D and f not in removed:
                    removed.add(f)
                    why[f] = '%s: %s' % (key, reason)

        bodies = dict(all_ent)
        if getters:
            for key, b in facts.bodies.items():
                if key in bodies:
                    continue
                names = set()
                for blk in b.blocks:
                    t = blk['term']
                    if t['k'] == 'call' and t.get('fn'):
                        from mir import canon
                        names.add(canon(t['fn']['path']))
                if names & set(getters):
                    ps = b.paths(1)
                    if ps:
                        bodies[key] = [(p, sem.project_raw(p)) for p in ps if p.end != 'unreachable']
        for key, ent in bodies.items():
            body = facts.bodies[key]
            pinned = key in pinned_api()
            free = (not pinned) and key not in called and '{closure' not in key and all(
                (e.name in READ_ONLY or (e.name == 'WR' and ev_field(body, e) in D)) for _, evs in ent for e in evs)
            if free:
                # a new observer: whatever it computes from the fields stays outside the pinned operations - unless somebody
                # calls it (then it is not free)
                continue
            for p, evs in ent:
                for i, e in enumerate(evs):
                    if e.name in ('RD', 'RDMEM'):
                        continue
                    if e.name == 'WR':
                        t = taint_of(body, {'v': e.data.get('val')}, D, getters)
                        if t and ev_field(body, e) not in D:
                            drop(t, key, 'stored into %s' % e.data.get('field'))
                        continue
                    if e.name == 'WRMEM':
                        t = taint_of(body, {'v': e.data.get('val')}, D, getters)
                        pl = e.data.get('place')
                        if t and not (isinstance(pl, tuple) and pl and pl[0] == 'local'):
                            drop(t, key, 'stored through a pointer')
                        continue
                    if e.name == 'CALL' and e.data.get('callee') in PURE_INT:
                        continue
                    if e.name == 'BR?':
                        t = taint_of(body, {'v': e.data.get('val')}, D, getters)
                        if t and not paired(body, ent, p, evs, i, D, getters):
                            drop(t, key, 'decides more than diagnostic stores')
                        continue
                    if e.name == 'RET':
                        t = taint_of(body, e.data, D, getters)
                        if t:
                            if pinned:
                                drop(t, key, 'returned by a pinned operation')
                            else:
                                new_getters.setdefault(key, set()).update(t)
                        continue
                    if e.name == 'DROP':
                        continue
                    t = taint_of(body, e.data, D, getters)
                    if t:
                        drop(t, key, 'flows into %s' % e.name)
        D2 = D - removed
        g2 = {k: (v & D2) for k, v in new_getters.items() if v & D2}
        if D2 == D and g2 == getters:
            break
        D = D2
        getters = g2
    facts._diag_why = why
    return D, getters


def paired(body, ent, p, evs, i, D, getters):
    """is there a path with the same prefix that takes the branch at evs[i] the other way and is otherwise the same path?"""
    me = canon_events(body, evs, D, getters)
    pre = [(e.name, repr(e.data)) for e in evs[:i]]
    mine = evs[i].data.get('taken')
    for q, qevs in ent:
        if q is p or len(qevs) <= i:
            continue
        o = qevs[i]
        if o.name != 'BR?' or repr(o.data.get('val')) != repr(evs[i].data.get('val')) or o.data.get('taken') == mine:
            continue
        if [(e.name, repr(e.data)) for e in qevs[:i]] != pre:
            continue
        if canon_events(body, qevs, D, getters) == me and q.end == p.end:
            return True
    return False


def get(facts):
    d = getattr(facts, '_diag', None)
    if d is None:
        d = compute(facts)
        facts._diag = d
    return d


def strip(body, evs):
    D, getters = get(body.facts)
    if not D:
        return evs
    out = [e for e in evs if not is_diag_event(body, e, D, getters)]
    if len(out) != len(evs):
        for n, e in enumerate(out):
            e.idx = n
    return out


def free_observer(facts, key):
    """a NEW public function (not part of the pinned API, called by nothing in the crate) that only looks: every path consists of
    lock / unlock / reads / branches / calls that are not channel events.  Whatever it computes leaves the crate through its
    return value and cannot reach a pinned operation."""
    import sem
    if key in pinned_api() or '{closure' in key:
        return False
    b = facts.bodies.get(key)
    if b is None:
        return False
    if str(b.j.get('vis', '')) not in ('Public', 'public', 'pub'):
        return False
    from mir import canon
    for k2, b2 in facts.bodies.items():
        if k2 == key:
            continue
        for blk in b2.blocks:
            t = blk['term']
            if t['k'] == 'call' and t.get('fn') and canon(t['fn']['path']) == key:
                return False
    try:
        ps = b.paths(1)
    except Exception:
        return False
    if not ps:
        return False
    D, _ = get(facts)
    for p in ps:
        if p.end == 'unreachable':
            continue
        for e in sem.project_raw(p):
            if e.name in READ_ONLY or e.name.startswith('VD.'):
                continue
            if e.name == 'WR' and ev_field(b, e) in D:
                continue
            return False
    return True
