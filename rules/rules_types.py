"""T rules: type-level facts decided by rustc itself (witness crate) and the impl inventory.  DESIGN.md §3.11."""
import os
import re
import shutil
import subprocess

from engine import rule
from mir import canon
import engine

EXPECTED_FAIL = 40
EXPECTED_PASS = 31


def run_witness():
    """builds the witness crate against the repository and returns (ok, results, raw)"""
    if getattr(engine, '_witness_cache', None) is not None:
        return engine._witness_cache
    repo = engine.REPO
    rundir = engine.RUNDIR
    # a stable crate directory per analysed tree: cargo's unit hashes depend on the crate path, and a fresh path per run
    # would leave a new set of artefacts in the shared target directory every time
    import hashlib
    w = os.path.join(engine.VERIF, '.build', 'witness-crate-' + hashlib.sha1(os.path.abspath(repo).encode()).hexdigest()[:10])
    os.makedirs(os.path.join(w, 'src'), exist_ok=True)
    src = os.path.join(engine.VERIF, 'witness')
    toml = open(os.path.join(src, 'Cargo.toml.in')).read().replace('@REPO@', repo)
    open(os.path.join(w, 'Cargo.toml'), 'w').write(toml)
    shutil.copy(os.path.join(src, 'src', 'lib.rs'), os.path.join(w, 'src', 'lib.rs'))
    lock = os.path.join(repo, 'Cargo.lock')
    if os.path.exists(lock):
        shutil.copy(lock, os.path.join(w, 'Cargo.lock'))
    env = dict(os.environ)
    env['CARGO_TARGET_DIR'] = os.path.join(engine.VERIF, '.build', 'witness-target')
    env['CARGO_NET_OFFLINE'] = 'true'
    env['CARGO_INCREMENTAL'] = '0'
    env.pop('RUSTC_WORKSPACE_WRAPPER', None)
    env.pop('RUSTFLAGS', None)
    r = subprocess.run(['cargo', '+nightly', 'test', '--doc', '--offline', '--', '--test-threads', '16'], cwd=w, env=env,
                       stdout=subprocess.PIPE, stderr=subprocess.PIPE, text=True)
    results = []
    for line in r.stdout.split('\n'):
        m = re.match(r'test src/lib.rs - (\S+) \(line (\d+)\)( - compile fail| - compile)? \.\.\. (\w+)', line)
        if m:
            results.append({'name': m.group(1), 'line': int(m.group(2)), 'kind': (m.group(3) or '').strip(' -'), 'status': m.group(4)})
    built = 'Doc-tests kanal_witness' in (r.stdout + r.stderr)
    engine._witness_cache = (built, results, r.stdout[-6000:] + '\n' + r.stderr[-6000:])
    return engine._witness_cache


def witness_rule(ctx, prefixes, what):
    if ctx.config != 'default':
        ctx.note('witnesses are compiled once, against the default feature set')
        return
    built, results, raw = run_witness()
    if not built:
        # either kanal does not build (cannot analyse - handled elsewhere) or the universal positive T1 fails
        if 'kanal_witness' in raw and ('E0277' in raw or 'error' in raw):
            msg = [l for l in raw.split('\n') if l.startswith('error')][:3]
            ctx.violate('kanal_witness::t1_positive', None, 'the universal positive witness does not type-check: %s' % ' | '.join(msg), sig='t1')
        else:
            ctx.violate('kanal_witness', None, 'witness crate could not be compiled: %s' % raw[-400:], sig='build')
        return
    mine = [r for r in results if r['name'].startswith(prefixes)]
    for r in mine:
        ctx.oblige(1, sample='%s (%s) -> %s' % (r['name'], r['kind'] or 'compile', r['status']))
        ctx.instance('%s:%d' % (r['name'], r['line']))
        if r['status'] != 'ok':
            if r['kind'] == 'compile fail':
                ctx.violate('kanal_witness::' + r['name'], None, '%s: a program that must be rejected (%s) now compiles, or fails with a different error' % (what, r['name']), sig='line%d' % r['line'])
            else:
                ctx.violate('kanal_witness::' + r['name'], None, '%s: the compiling twin %s no longer compiles (the negative witness would pass for the wrong reason)' % (what, r['name']), sig='twin-line%d' % r['line'])
    ctx.extra_evidence = {'witnesses': len(mine), 'compile_fail': len([r for r in mine if r['kind'] == 'compile fail']),
                          'checker': 'cargo +nightly test --doc (rustc decides each witness)'}
    return mine


@rule('T1', ['C20'], 'universal positive: for every T: Send all handles are Send+Sync and futures/stream are Send (rustc type-checks the generic witness)', needs_async=True)
def t1(ctx):
    if ctx.config != 'default':
        ctx.note('witnesses are compiled once, against the default feature set')
        return
    built, results, raw = run_witness()
    ctx.oblige(11, sample='fn t1_positive<T: Send>() { is_send::<Sender<T>>(); is_sync::<Sender<T>>(); ... } type-checks')
    ctx.instance('t1_positive: 8 handle obligations + 3 future obligations')
    if not built:
        msg = [l for l in raw.split('\n') if l.startswith('error')][:3]
        ctx.violate('kanal_witness::t1_positive', None, 'the universal positive witness does not type-check: %s' % ' | '.join(msg), sig='t1')


@rule('T2', ['C20'], 'universal negatives: without T: Send none of the 11 auto-trait facts holds (compile_fail,E0277 with compiling twins)', needs_async=True)
def t2(ctx):
    mine = witness_rule(ctx, ('t2_',), 'Send/Sync bound')
    if mine is not None and len(mine) < 22:
        ctx.violate('kanal_witness', None, 'anchor missing: only %d of 22 T2 witnesses ran' % len(mine), sig='floor')


@rule('T3', ['C20'], 'representative negatives: Rc, raw-pointer newtype, &Cell as T cannot cross threads in a handle, by reference, or in a future/stream', needs_async=True)
def t3(ctx):
    mine = witness_rule(ctx, ('t3_',), 'non-Send message type')
    if mine is not None and len(mine) < 39:
        ctx.violate('kanal_witness', None, 'anchor missing: only %d of 39 T3 witnesses ran' % len(mine), sig='floor')


@rule('T5', ['C07', 'C15'], 'futures are !Unpin and borrow their handle: safe code cannot move a registered future or drop its channel handle first', needs_async=True)
def t5(ctx):
    mine = witness_rule(ctx, ('t5_',), 'pinning / borrow')
    if mine is not None and len(mine) < 10:
        ctx.violate('kanal_witness', None, 'anchor missing: only %d of 10 T5 witnesses ran' % len(mine), sig='floor')


HEAP = ('Box', 'Arc', 'Rc', 'Weak', 'NonNull', 'Vec', 'VecDeque', 'PhantomData')


def holds_by_value(ty, name):
    """does the type expression `ty` contain `name` IN PLACE (not behind a pointer, a reference or a heap container)?"""
    ty = ty.replace(' ', '')
    i = 0
    while True:
        i = ty.find(name, i)
        if i < 0:
            return False
        j = i + len(name)
        before_ok = i == 0 or not (ty[i - 1].isalnum() or ty[i - 1] == '_')
        after_ok = j >= len(ty) or not (ty[j].isalnum() or ty[j] == '_')
        if before_ok and after_ok:
            # enclosing generic containers and leading pointer sigils
            stack = []
            k = 0
            cur = ''
            ptr = False
            while k < i:
                c = ty[k]
                if c == '<':
                    stack.append(cur)
                    cur = ''
                elif c == '>':
                    if stack:
                        stack.pop()
                    cur = ''
                elif c in ',()[];':
                    cur = ''
                else:
                    cur += c
                k += 1
            lead = cur  # what stands directly before the name in its own slot: `&'amut`, `*mut`, `*const`, a path prefix
            if lead.startswith('&') or lead.startswith('*mut') or lead.startswith('*const'):
                ptr = True
            if not ptr and not any(x.split('::')[-1] in HEAP for x in stack):
                return True
        i = j


@rule('T6', ['C07', 'C15'], 'address stability: a type that holds a pinned (address-registered) future in place has no explicit Unpin impl', needs_async=True)
def t6(ctx):
    adts = ctx.facts.adts
    pinned = set()
    # least fixed point: ADTs that contain PhantomPinned in place, directly or through other ADTs of the crate
    changed = True
    while changed:
        changed = False
        for n, a in adts.items():
            if n in pinned:
                continue
            short = canon(n).split('<')[0]
            for v in a.get('variants', []):
                for f in v.get('fields', []):
                    t = canon(f['ty'])
                    if holds_by_value(t, 'std::marker::PhantomPinned') or holds_by_value(t, 'PhantomPinned') \
                            or any(holds_by_value(t, canon(q).split('<')[0]) for q in pinned):
                        pinned.add(n)
                        changed = True
                        break
                if n in pinned:
                    break
    for n in sorted(pinned):
        ctx.instance('adt %s is address-sensitive' % n)
        ctx.oblige(1, sample='%s: no explicit Unpin' % n)
        short = canon(n).split('<')[0]
        for im in ctx.facts.impls:
            if im.get('of_trait') and canon(im.get('trait', '')) == 'std::marker::Unpin' and im.get('polarity', 'Positive') == 'Positive' \
                    and canon(im.get('self_ty', '')).split('<')[0] == short:
                ctx.violate(n, None, 'explicit `impl Unpin for %s`, which holds a future in place whose address is registered in the wait list: '
                            'safe code could move it while a peer still writes to the old address' % im.get('self_ty'), at=im.get('span'), sig='unpin-impl')
    for nm in ('future::SendFuture', 'future::ReceiveFuture'):
        if nm not in pinned and nm in adts:
            ctx.violate(nm, None, '%s is not address-sensitive any more (no PhantomPinned in place)' % nm, sig='unpinned')


AUTO_TRAITS = ('std::marker::Send', 'std::marker::Sync', 'std::marker::Unpin', 'std::panic::UnwindSafe', 'std::panic::RefUnwindSafe')
EXPECTED_IMPLS = {
    ('std::marker::Send', 'internal::ChannelInternal<T>'),
    ('std::marker::Send', 'signal::SignalTerminator<T>'),
    ('std::marker::Send', 'signal::Signal<T>'),
}


@rule('T4', ['C20'], 'impl inventory: every unsafe auto-trait impl is `unsafe impl<T: Send> Send for X<T>`; no unsafe impl Sync; nothing new')
def t4(ctx):
    seen = set()
    for im in ctx.facts.impls:
        if not im.get('of_trait'):
            continue
        tr = im.get('trait')
        if tr not in AUTO_TRAITS:
            continue
        key = (tr, im['self_ty'])
        seen.add(key)
        ctx.oblige(1, sample='impl %s for %s where %s' % (tr, im['self_ty'], im['preds']))
        ctx.instance('impl %s for %s' % key)
        if im.get('polarity') == 'Negative':
            continue  # a negative impl only removes capabilities
        if key not in EXPECTED_IMPLS:
            ctx.violate(im['self_ty'], None, 'new explicit impl of auto trait %s for %s (not in the confirmed table)' % key, at=im.get('span'), sig='impl:' + tr)
            continue
        extra = [q for q in im['preds'] if q not in ('T: std::marker::Send', 'T: std::marker::Sized')]
        if extra:
            ctx.violate(im['self_ty'], None, 'unsafe impl %s for %s carries the additional bound(s) %s: the type stops being Send for message types that are Send (futures would no longer run on multi-threaded executors)' % (tr, im['self_ty'], extra), at=im.get('span'), sig='extra-bound:' + tr)
        if 'T: std::marker::Send' not in im['preds']:
            ctx.violate(im['self_ty'], None, 'unsafe impl %s for %s lost its `T: Send` bound: safe code could move a non-Send value across threads (predicates: %s)' % (tr, im['self_ty'], im['preds']), at=im.get('span'), sig='bound:' + tr)
    for key in EXPECTED_IMPLS:
        if key not in seen:
            # the explicit impl is gone.  Whether the type is still Send exactly for T: Send is a question for the compiler, and it
            # is asked: T1 (every handle / future is Send[+Sync] for T: Send) and T2/T3 (nothing crosses threads for a !Send T) are
            # compiler verdicts on the current tree.  An impl that was redundant (the auto trait derives the same answer from the
            # fields) may be removed; an impl that was needed makes T1 fail.
            ctx.note('explicit `unsafe impl<T: Send> %s for %s` no longer present: the verdicts of T1-T3 decide' % key)
    # fields that carry the payload by raw pointer must stay behind these impls: PhantomPinned present in both futures
    if ctx.has_async():
        for nm in ('future::SendFuture', 'future::ReceiveFuture'):
            a = ctx.facts.adts.get(nm)
            ctx.oblige(1, sample='%s has a PhantomPinned field' % nm)
            if a is None:
                ctx.violate(nm, None, 'anchor missing: future struct not found', sig='anchor')
                continue
            ctx.instance('adt %s' % nm)
            if not any('PhantomPinned' in f['ty'] for f in a['variants'][0]['fields']):
                ctx.violate(nm, None, '%s has no PhantomPinned field: it would be Unpin and movable while registered' % nm, at=a.get('span'), sig='unpin')
