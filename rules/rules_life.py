"""L rules (lifecycle), O rules (observers, panic inventory), H8.  DESIGN.md §3.5, §3.10."""
from engine import rule
import fam
import sem
from sem import labels, has, contains
from mir import fmt, canon, classify_bool_expr, ci_field_load, is_const
from rules_send import one_section_check, is_state_event

SEND_SIDE = ('Sender', 'AsyncSender')
RECV_SIDE = ('Receiver', 'AsyncReceiver')
USIZE_MAX = '18446744073709551615'


def handle_of_key(key):
    """'Sender' for `Sender::<T>::close` or `<Sender<T> as Drop>::drop`"""
    for h in ('AsyncSender', 'AsyncReceiver', 'Sender', 'Receiver'):
        if key.startswith(h + '::<T>::') or key.startswith('<' + h + '<T> as '):
            return h
    return None


def own_field(h):
    return 'send_count' if h in SEND_SIDE else 'recv_count'


def other_field(h):
    return 'recv_count' if h in SEND_SIDE else 'send_count'


def short(field):
    return 'sc0' if field == 'send_count' else 'rc0'


def handles(ctx):
    return [h for h in fam.HANDLES if ctx.has_async() or not h.startswith('Async')]


def ret_paths(ctx, b):
    ps = ctx.paths(b)
    if ps is None:
        ctx.violate(b.key, None, 'cannot analyse: path explosion', sig='paths')
        return
    for p in ps:
        if p.end == 'return':
            yield p, ctx.sem(p)


def wr_delta(e, field):
    """for WR field := (load field) +/- 1 returns +1 / -1, else None"""
    v = e.data['val']
    if v[0] == 'bin' and v[1] in ('Add', 'Sub', 'AddUnchecked', 'SubUnchecked') and ci_field_load(v[2]) == field and is_const(v[3], 1):
        return 1 if v[1].startswith('Add') else -1
    # checked arithmetic: field((AddWithOverflow(a,b)), 0)
    if v[0] == 'field' and v[2] == '0' and v[1][0] == 'bin' and v[1][1] in ('AddWithOverflow', 'SubWithOverflow'):
        inner = v[1]
        if ci_field_load(inner[2]) == field and is_const(inner[3], 1):
            return 1 if inner[1].startswith('Add') else -1
    return None


@rule('L1', ['C11', 'C12', 'C06', 'C10'], 'Drop of a handle: guarded decrement, terminate waiters exactly on the 1->0 transition while the other side lives')
def l1(ctx):
    for h in handles(ctx):
        key = '<%s<T> as std::ops::Drop>::drop' % h
        b = ctx.body(key)
        if b is None:
            ctx.violate(key, None, 'anchor missing: Drop impl not found', sig='anchor')
            continue
        ctx.instance(key)
        own, oth = own_field(h), other_field(h)
        so, st = short(own), short(oth)
        for p, evs in ret_paths(ctx, b):
            ctx.oblige(1, sample='%s [%s]' % (key, p.signature()))
            locks = [e for e in evs if e.name in ('LOCK', 'TRYLOCK')]
            if len(locks) != 1:
                ctx.violate(key, p, 'Drop uses %d critical sections (must be one)' % len(locks))
            wrs = [e for e in evs if e.name == 'WR']
            for w in wrs:
                if w.data['field'] != own:
                    ctx.violate(key, p, 'Drop of a %s writes %s' % (h, w.data['field']), at=w.at)
            own_wr = [w for w in wrs if w.data['field'] == own]
            first_test = [e for e in evs if e.name == 'BR' and e.data['label'] == so]
            if not first_test:
                ctx.violate(key, p, 'Drop does not test its own count before decrementing')
                continue
            if first_test[0].data['outcome'] == 'T':
                # count already 0 (closed): nothing may happen
                if own_wr or any(e.name == 'TERMINATE_SIGNALS' for e in evs):
                    ctx.violate(key, p, 'Drop on a closed channel (count==0) still changes state')
                continue
            if len(own_wr) != 1:
                ctx.violate(key, p, 'Drop with count>0 decrements %d times' % len(own_wr))
                continue
            w = own_wr[0]
            if w.idx < first_test[0].idx or w.sec is None or w.sec != first_test[0].sec:
                ctx.violate(key, p, 'decrement is not guarded by count>0 in the same critical section', at=w.at)
            if wr_delta(w, own) != -1:
                ctx.violate(key, p, 'own count is not decremented by exactly one: %s' % fmt(w.data['val']), at=w.at)
            post = [(e.data['label'], e.data['outcome']) for e in evs if e.name == 'BR' and e.idx > w.idx and e.sec == w.sec]
            term = [e for e in evs if e.name == 'TERMINATE_SIGNALS']
            should = (so, 'T') in post and (st, 'F') in post
            if should and len(term) != 1:
                ctx.violate(key, p, 'last handle of the side dropped while the other side is alive, but waiters are not terminated')
            if not should and term:
                ctx.violate(key, p, 'waiters terminated although this was not the 1->0 transition with the other side alive', at=term[0].at)
            if term and (term[0].sec is None or term[0].sec != w.sec or term[0].idx < w.idx):
                ctx.violate(key, p, 'terminate_signals not in the critical section of the decrement', at=term[0].at)
            if (so, 'T') in post and (st, 'F') not in post and (st, 'T') not in post:
                ctx.violate(key, p, 'count reached 0 but the other side\'s count is not consulted')
            bad = [e for e in evs if (e.name.startswith('Q.') and e.name not in ('Q.len', 'Q.is_empty')) or e.name in ('NEXT_SEND', 'NEXT_RECV', 'PUSH_SEND', 'PUSH_RECV')]
            if bad:
                ctx.violate(key, p, 'Drop applies %s' % bad[0].name, at=bad[0].at)
        # the decision points must exist somewhere in the body
        allp = list(ret_paths(ctx, b))
        if not any(any(e.name == 'TERMINATE_SIGNALS' for e in evs) for _, evs in allp):
            ctx.violate(key, None, 'no path of Drop terminates the waiters', sig='no-terminate')


def clone_bodies(ctx):
    out = []
    for h in handles(ctx):
        out.append((h, h, '<%s<T> as std::clone::Clone>::clone' % h))
    if ctx.has_async():
        out += [('Sender', 'AsyncSender', 'Sender::<T>::clone_async'), ('AsyncSender', 'Sender', 'AsyncSender::<T>::clone_sync'),
                ('Receiver', 'AsyncReceiver', 'Receiver::<T>::clone_async'), ('AsyncReceiver', 'Receiver', 'AsyncReceiver::<T>::clone_sync')]
    return out


def is_handle_agg(v, names):
    return v is not None and v[0] == 'agg' and v[1] in names


def arc_clone_of_self_internal(v):
    if v[0] == 'call' and v[2] == 'std::clone::Clone::clone' and v[3]:
        a = v[3][0]
        if a[0] in ('ref', 'rawptr') and a[1][0] == 'pfield' and a[1][2] == 'internal' and a[1][1] in (('deref', ('param', 1)), ('local', 1)):
            return True
    return False


def mentions_self(v, depth=0):
    if v in (('param', 1), ('local', 1)):
        return True
    if isinstance(v, tuple) and depth < 12:
        return any(mentions_self(x, depth + 1) for x in v if isinstance(x, tuple))
    return False


def arc_moved_out_of_self(v):
    """v == ptr::read(&self.internal) (self by value, possibly behind a ManuallyDrop wrapper)"""
    if v[0] == 'call' and v[2] == 'std::ptr::read' and v[3]:
        a = v[3][-1]
        if a[0] in ('ref', 'rawptr') and a[1][0] == 'pfield' and a[1][2] == 'internal' and mentions_self(a):
            return True
        # `ptr::read(&*handle as *const A as *const Internal<T>)`: the handle is its single field (layout: the repr check of L4)
        while a[0] == 'cast' and a[1] == 'PtrToPtr':
            a = a[2]
        if a[0] in ('ref', 'rawptr') and mentions_self(a) and not (a[1][0] == 'pfield'):
            return True
        if a[0] == 'call' and a[2] in ('std::ops::Deref::deref', 'std::ops::DerefMut::deref_mut') and mentions_self(a):
            return True  # `&*manually_drop_handle`
    return False


def by_value_conversions(ctx):
    return [k for k, s, _ in conversions(ctx) if not s.startswith('&')]


@rule('L2', ['C12', 'C09'], 'Clone family: guarded +1 on the own side, exactly one same-side handle over Arc::clone(&self.internal)')
def l2(ctx):
    for h, target, key in clone_bodies(ctx):
        b = ctx.body(key)
        if b is None:
            ctx.violate(key, None, 'anchor missing: clone body not found', sig='anchor')
            continue
        ctx.instance(key)
        own = own_field(h)
        so = short(own)
        for p, evs in ret_paths(ctx, b):
            ctx.oblige(1, sample='%s [%s]' % (key, p.signature()))
            locks = [e for e in evs if e.name in ('LOCK', 'TRYLOCK')]
            if len(locks) != 1:
                ctx.violate(key, p, 'clone uses %d critical sections' % len(locks))
            wrs = [e for e in evs if e.name == 'WR']
            for w in wrs:
                if w.data['field'] != own:
                    ctx.violate(key, p, 'clone of a %s writes %s' % (h, w.data['field']), at=w.at)
            own_wr = [w for w in wrs if w.data['field'] == own]
            tests = [e for e in evs if e.name == 'BR' and e.data['label'] == so]
            if not tests:
                ctx.violate(key, p, 'clone does not test its own count (a closed channel would be revived)')
                continue
            if tests[0].data['outcome'] == 'T':
                if own_wr:
                    ctx.violate(key, p, 'clone increments although the count is 0 (revives a closed channel)', at=own_wr[0].at)
            else:
                if len(own_wr) != 1:
                    ctx.violate(key, p, 'clone with count>0 increments %d times' % len(own_wr))
                else:
                    w = own_wr[0]
                    if wr_delta(w, own) != 1:
                        ctx.violate(key, p, 'own count is not incremented by exactly one: %s' % fmt(w.data['val']), at=w.at)
                    if w.sec is None or w.sec != tests[0].sec or w.idx < tests[0].idx:
                        ctx.violate(key, p, 'increment not guarded by count>0 in the same critical section', at=w.at)
            ret = p.ret
            if not is_handle_agg(ret, (target,)):
                ctx.violate(key, p, 'clone does not return a %s: %s' % (target, fmt(ret)))
            else:
                if len(ret[3]) != 1 or not arc_clone_of_self_internal(ret[3][0]):
                    ctx.violate(key, p, 'returned handle is not built over Arc::clone(&self.internal): %s' % fmt(ret))
            bad = [e for e in evs if e.name in ('TERMINATE_SIGNALS', 'NEXT_SEND', 'NEXT_RECV', 'PUSH_SEND', 'PUSH_RECV') or (e.name.startswith('Q.') and e.name not in ('Q.len',))]
            if bad:
                ctx.violate(key, p, 'clone applies %s' % bad[0].name, at=bad[0].at)


def constructors(ctx):
    out = [('bounded', 'Sender', 'Receiver', True), ('unbounded', 'Sender', 'Receiver', False)]
    if ctx.has_async():
        out += [('bounded_async', 'AsyncSender', 'AsyncReceiver', True), ('unbounded_async', 'AsyncSender', 'AsyncReceiver', False)]
    return out


@rule('L3', ['C12', 'C08'], 'handles come into existence only in clone bodies, conversions and the channel constructors')
def l3(ctx):
    # by-value conversions may rebuild the handle around the same Arc; L4 pins down the exact forms and their count effect
    allowed = {k for _, _, k in clone_bodies(ctx)} | {c[0] for c in constructors(ctx)} | set(by_value_conversions(ctx))
    n = 0
    for key, b in ctx.facts.bodies.items():
        for bi, blk in enumerate(b.blocks):
            for s in blk['stmts']:
                if s['k'] == 'assign' and s['rv']['k'] == 'agg' and s['rv'].get('ak') == 'adt' and canon(s['rv']['name']) in fam.HANDLES:
                    n += 1
                    ctx.oblige(1)
                    ctx.instance('%s builds %s' % (key, s['rv']['name']))
                    if not fam.allowed_for(ctx, key, allowed):
                        ctx.violate(key, None, 'a %s handle is constructed outside the clone family / channel constructors (count not adjusted)' % s['rv']['name'], at=s.get('at'), sig='construct:' + canon(s['rv']['name']))
    for name, sh, rh, bounded in constructors(ctx):
        b = ctx.body(name)
        if b is None:
            ctx.violate(name, None, 'anchor missing: constructor not found', sig='anchor')
            continue
        for p, evs in ret_paths(ctx, b):
            ctx.oblige(1, sample='%s returns (%s over clone(internal), %s over internal)' % (name, sh, rh))
            r = p.ret
            ok = False
            if r is not None and r[0] == 'agg' and r[1] == 'tuple' and len(r[3]) == 2:
                s, rc = r[3]
                if is_handle_agg(s, (sh,)) and is_handle_agg(rc, (rh,)):
                    inner = rc[3][0]
                    sc = s[3][0]
                    if inner[0] == 'call' and inner[2] == 'internal::ChannelInternal::new':
                        if sc[0] == 'call' and sc[2] == 'std::clone::Clone::clone' and sc[3] and fam.ref_snapshot(sc[3][0]) == inner:
                            a = inner[3]
                            if bounded:
                                ok = len(a) == 2 and a[0] == ('const', 'bool', '1') and a[1] == ('param', 1)
                            else:
                                ok = len(a) == 2 and a[0] == ('const', 'bool', '0')
            if not ok:
                ctx.violate(name, p, 'constructor does not return (sender over Arc::clone(internal), receiver over internal) of one ChannelInternal::new(%s, ..): %s' % (str(bounded).lower(), fmt(r)))


@rule('L7', ['C05', 'C01', 'C12', 'C11', 'C06', 'C09'], 'a handle is never forgotten (its Drop gives the count back and releases its Arc reference), except by a by-value conversion that moves that reference into the handle it returns')
def l7(ctx):
    conv = set(by_value_conversions(ctx))
    n = 0
    for key, b in ctx.facts.bodies.items():
        for bb, t in b.all_calls():
            fn = t.get('fn')
            if not fn:
                continue
            nme = canon(fn['path'])
            if nme in ('std::mem::forget', 'std::mem::ManuallyDrop::new', 'std::mem::ManuallyDrop::take', 'std::mem::MaybeUninit::new', 'std::boxed::Box::leak', 'std::sync::Arc::into_raw',
                       'std::sync::Arc::increment_strong_count', 'std::boxed::Box::into_raw'):
                ctx.oblige(1)
                n += 1
                hit = any(any((hh + '<') in a for hh in fam.HANDLES) for a in fn['args']) or any('ChannelInternal' in a and 'Arc<' in a for a in fn['args']) \
                    or (nme.startswith('std::sync::Arc::') and any('ChannelInternal' in a for a in fn['args']))
                if not hit:
                    continue
                ctx.instance('%s %s' % (key, nme))
                owners = fam.owners(ctx, key) or {key}
                if nme in ('std::mem::forget', 'std::mem::ManuallyDrop::new') and owners <= conv:
                    # legitimate only when the Arc reference of the forgotten handle is the one inside the returned handle
                    for ck in sorted(owners):
                        cb = ctx.body(ck)
                        for p_, evs_ in (ret_paths(ctx, cb) if cb is not None else []):
                            r_ = p_.ret
                            inner = r_[3][0] if r_ is not None and r_[0] == 'agg' and r_[1] in fam.HANDLES and len(r_[3]) == 1 else None
                            fg = [e for e in evs_ if (e.name == 'FORGET' and e.data['val'] == ('param', 1))
                                  or (e.name == 'CALL' and e.data['callee'] == 'std::mem::ManuallyDrop::new' and e.data['args'] and e.data['args'][-1] == ('param', 1))]
                            if fg and not (inner is not None and arc_moved_out_of_self(inner)):
                                ctx.violate(ck, p_, 'the conversion forgets self but returns a handle over %s: the Arc reference held by self is never released, the channel (and whatever is buffered in it) is never freed' % fmt(inner if inner is not None else r_), at=fg[0].at, sig='forget-leaks-arc')
                    continue
                ctx.violate(key, None, 'a channel handle / its Arc reference is leaked (%s): the count is never given back or the channel is never freed, so buffered values are never destroyed' % nme, at=t.get('at'), sig='forget-handle')
    ctx.instance('scan of %d leak-capable calls' % n if n else 'scan (no leak-capable calls on handles)')


def conversions(ctx):
    if not ctx.has_async():
        return []
    return [('Sender::<T>::to_async', 'Sender<T>', 'AsyncSender<T>'), ('Sender::<T>::as_async', '&Sender<T>', '&AsyncSender<T>'),
            ('AsyncSender::<T>::to_sync', 'AsyncSender<T>', 'Sender<T>'), ('AsyncSender::<T>::as_sync', '&AsyncSender<T>', '&Sender<T>'),
            ('Receiver::<T>::to_async', 'Receiver<T>', 'AsyncReceiver<T>'), ('Receiver::<T>::as_async', '&Receiver<T>', '&AsyncReceiver<T>'),
            ('AsyncReceiver::<T>::to_sync', 'AsyncReceiver<T>', 'Receiver<T>'), ('AsyncReceiver::<T>::as_sync', '&AsyncReceiver<T>', '&Receiver<T>')]


def strip_lt(ty):
    import re
    return re.sub(r"&'[a-z_0-9]+ ", '&', ty)


def side_of_ty(ty):
    t = strip_lt(ty).lstrip('&')
    for h in ('AsyncSender<T>', 'Sender<T>'):
        if t == h:
            return 'send'
    for h in ('AsyncReceiver<T>', 'Receiver<T>'):
        if t == h:
            return 'recv'
    return None


@rule('L4', ['C09', 'C12'], 'conversions: same-side transmute with no count effect, layout-identical handle structs', needs_async=True)
def l4(ctx):
    # layout
    ftys = set()
    for h in fam.HANDLES:
        a = ctx.facts.adts.get(h)
        if a is None:
            ctx.violate(h, None, 'anchor missing: handle struct not found', sig='anchor')
            continue
        ctx.oblige(1, sample='%s is repr(C)/transparent with the single field internal' % h)
        ctx.instance('adt %s' % h)
        if not (a['repr_c'] or a['repr_transparent']):
            ctx.violate(h, None, 'handle struct is neither repr(C) nor repr(transparent): transmute between flavours has no layout guarantee', at=a.get('span'), sig='repr')
        if a['repr_packed'] or a['repr_align'] not in ('None',):
            ctx.violate(h, None, 'handle struct has a packed/align repr that may differ between flavours', at=a.get('span'), sig='repr-align')
        fs = a['variants'][0]['fields']
        if len(fs) != 1:
            ctx.violate(h, None, 'handle struct has %d fields (flavours must be identical single-field wrappers)' % len(fs), at=a.get('span'), sig='fields')
        ftys.add(tuple((f['name'], f['ty']) for f in fs))
    if len(ftys) > 1:
        ctx.violate('<handles>', None, 'the four handle structs do not have identical field lists: %s' % sorted(ftys), sig='fields-differ')
    conv = {k: (s, t) for k, s, t in conversions(ctx)}
    for key, (src, dst) in conv.items():
        b = ctx.body(key)
        if b is None:
            ctx.violate(key, None, 'anchor missing: conversion not found', sig='anchor')
            continue
        ctx.instance(key)
        for p, evs in ret_paths(ctx, b):
            ctx.oblige(1, sample='%s: transmute %s -> %s, no count access' % (key, src, dst))
            r = p.ret
            tys = (strip_lt(b.locals[1]['ty']), strip_lt(b.locals[0]['ty']))
            if tys != (src, dst):
                ctx.violate(key, p, 'conversion signature is %s -> %s, expected %s -> %s' % (tys[0], tys[1], src, dst))
            if r is not None and r[0] == 'cast' and r[1] == 'PtrToPtr' and src.startswith('&'):
                # `&*(self as *const A as *const B)`: a reinterpreting reborrow, the borrowing twin of transmute(self)
                x = r
                while x[0] == 'cast' and x[1] == 'PtrToPtr':
                    x = x[2]
                if x[0] in ('ref', 'rawptr') and x[1] == ('deref', ('param', 1)):
                    x = ('param', 1)
                if x == ('param', 1):
                    r = ('cast', 'Transmute', ('param', 1), r[3])
            if r is not None and r[0] == 'cast' and r[1] == 'Transmute' and r[2] == ('param', 1):
                if any(e.name in ('LOCK', 'TRYLOCK', 'WR', 'RD') for e in evs):
                    ctx.violate(key, p, 'transmuting conversion also touches the channel state')
                if any(e.name == 'DROP' for e in evs):
                    ctx.violate(key, p, 'transmuting conversion drops something (the handle would be counted down)')
                continue
            # alternative by-value form: clone + drop(self)
            if src.startswith('&'):
                ctx.violate(key, p, 'borrowing conversion is not a same-side transmute of self: %s' % fmt(r))
                continue
            h = handle_of_key(key)
            own = own_field(h)
            so = short(own)
            lb = labels(evs)
            wrs = [e for e in evs if e.name == 'WR']
            drops = [e for e in evs if e.name in ('DROP', 'MEMDROP') and e.data['val'] == ('param', 1)]
            forgets = [e for e in evs if (e.name == 'FORGET' and e.data['val'] == ('param', 1))
                       or (e.name == 'CALL' and e.data['callee'] == 'std::mem::ManuallyDrop::new' and e.data['args'] and e.data['args'][-1] == ('param', 1))]
            target = dst[:-3]
            inner = r[3][0] if is_handle_agg(r, (target,)) and len(r[3]) == 1 else None
            # (b) clone-then-drop: a new reference and a guarded +1, then self is dropped (guarded -1)
            counted = (len(wrs) == 1 and wrs[0].data['field'] == own and wr_delta(wrs[0], own) == 1 and has(lb, so, 'F')) or (not wrs and has(lb, so, 'T'))
            form_b = inner is not None and arc_clone_of_self_internal(inner) and counted and len(drops) == 1 and not forgets
            # (c) move: the one Arc reference of self is moved into the result, self is never dropped, no count access
            form_c = inner is not None and arc_moved_out_of_self(inner) and len(forgets) == 1 and not drops and not wrs and not any(e.name in ('LOCK', 'TRYLOCK', 'RD') for e in evs)
            if not (form_b or form_c):
                ctx.violate(key, p, 'conversion is none of: same-side transmute, clone-then-drop with net count effect zero, move of the Arc with self forgotten: %s' % fmt(r))
    # every transmute involving a handle type anywhere in the crate is one of these
    for key, b in ctx.facts.bodies.items():
        for blk in b.blocks:
            for s in blk['stmts']:
                if s['k'] == 'assign' and s['rv']['k'] == 'cast' and s['rv']['ck'] == 'Transmute':
                    o = s['rv']['o']
                    sty = o.get('p', {}).get('ty') or o.get('ty', '')
                    dty = s['rv']['ty']
                    ss, ds = side_of_ty(sty), side_of_ty(dty)
                    involves = any(hh + '<' in sty or hh + '<' in dty for hh in fam.HANDLES)
                    if involves:
                        ctx.oblige(1)  # not an anchor: conversions may legitimately be written without transmute
                        if ss is None or ds is None or ss != ds:
                            ctx.violate(key, None, 'transmute between %s and %s crosses channel sides or involves a non-handle type' % (sty, dty), at=s.get('at'), sig='transmute')
                        elif key not in conv:
                            ctx.violate(key, None, 'handle transmute outside the to_*/as_* conversions', at=s.get('at'), sig='transmute-outside')
            t = blk['term']
            if t['k'] == 'call' and t.get('fn') and canon(t['fn']['path']) in ('std::mem::transmute', 'std::intrinsics::transmute', 'std::mem::transmute_copy'):
                args = t['fn']['args']
                if any(any(hh + '<' in a for hh in fam.HANDLES) for a in args):
                    ctx.violate(key, None, 'handle transmute through a transmute call (not recognised): %s' % args, at=t.get('at'), sig='transmute-call')


@rule('L5', ['C10', 'C05', 'C12'], 'close: error iff already closed; otherwise zero both counts, terminate waiters, clear the buffer, all under one lock')
def l5(ctx):
    for h in handles(ctx):
        key = '%s::<T>::close' % h
        b = ctx.body(key)
        if b is None:
            ctx.violate(key, None, 'anchor missing: close not found', sig='anchor')
            continue
        ctx.instance(key)
        seen_ok = False
        for p, evs in ret_paths(ctx, b):
            ctx.oblige(1, sample='%s [%s]' % (key, p.signature()))
            locks = [e for e in evs if e.name in ('LOCK', 'TRYLOCK')]
            if len(locks) != 1:
                ctx.violate(key, p, 'close uses %d critical sections' % len(locks))
            lb = labels(evs)
            rk = fam.success_kind(fam.final_ret(p, evs))
            wrs = [e for e in evs if e.name == 'WR']
            term = [e for e in evs if e.name == 'TERMINATE_SIGNALS']
            clr = [e for e in evs if e.name == 'Q.clear']
            unl = [e for e in evs if e.name == 'UNLOCK']
            both_zero = has(lb, 'rc0', 'T') and has(lb, 'sc0', 'T') and not has(lb, 'rc0', 'F') and not has(lb, 'sc0', 'F')
            if rk.startswith('err'):
                if not both_zero:
                    ctx.violate(key, p, 'close reports an error although the channel was not closed (both counts 0)')
                if wrs or term or clr:
                    ctx.violate(key, p, 'failed close changes state')
            elif rk == 'ok':
                seen_ok = True
                if both_zero:
                    ctx.violate(key, p, 'close succeeds on an already closed channel')
                fields = {w.data['field']: w for w in wrs}
                for f in ('recv_count', 'send_count'):
                    sh = short(f)
                    already = has(lb, sh, 'T') and not has(lb, sh, 'F') and f not in fields
                    if already:
                        continue  # this side had no handle left: the count is 0 and stays 0
                    if f not in fields or not is_const(fields[f].data['val'], 0):
                        ctx.violate(key, p, 'close does not set %s to 0' % f)
                for w in wrs:
                    if w.data['field'] not in ('recv_count', 'send_count'):
                        ctx.violate(key, p, 'close writes %s' % w.data['field'], at=w.at)
                if len(term) < 1:
                    ctx.violate(key, p, 'close does not terminate the waiters')
                # (a second terminate_signals() finds the list already cleared by the first: harmless)
                if len(clr) != 1:
                    ctx.violate(key, p, 'close does not clear the buffer (buffered values must be destroyed by the time close returns)')
                if unl:
                    last_unl = unl[-1].idx
                    for e in term + clr + wrs:
                        if e.sec is None or e.idx > last_unl:
                            ctx.violate(key, p, '%s happens outside the critical section of close' % e.name, at=e.at)
            else:
                ctx.violate(key, p, 'unrecognised close result %s' % rk)
        if not seen_ok:
            ctx.violate(key, None, 'close has no success path', sig='no-ok')


def field_writes(ctx, fields):
    """(body key, field, at) for every MIR assignment whose lhs ends in one of `fields` of ChannelInternal,
    and every ChannelInternal aggregate"""
    out = []
    for key, b in ctx.facts.bodies.items():
        for blk in b.blocks:
            for s in blk['stmts']:
                if s['k'] != 'assign':
                    continue
                pr = s['lhs']['p']
                if pr and isinstance(pr[-1], dict) and pr[-1].get('f') in fields:
                    # make sure the base is a ChannelInternal
                    out.append((key, pr[-1]['f'], s.get('at'), 'assign'))
                if s['rv']['k'] == 'agg' and s['rv'].get('ak') == 'adt' and canon(s['rv']['name']) == 'internal::ChannelInternal':
                    out.append((key, '*', s.get('at'), 'aggregate'))
                # &mut field escaping: ref mut of the field
                if s['rv']['k'] in ('ref', 'rawptr') and s['rv'].get('bk', s['rv'].get('m', '')) in ('mut', 'Mut'):
                    pp = s['rv']['p']['p']
                    if pp and isinstance(pp[-1], dict) and pp[-1].get('f') in fields and 'ChannelInternal' in str(s['rv']['p'].get('ty', '')) + key + str(ctx.facts.bodies[key].locals[s['rv']['p']['l']]['ty']):
                        out.append((key, pp[-1]['f'], s.get('at'), 'borrow-mut'))
    return out


@rule('L6', ['C12', 'C10', 'C11', 'C08'], 'only new, Drop, the clone family and close write the counters; nothing but new writes capacity')
def l6(ctx):
    allowed = {'internal::ChannelInternal::<T>::new'}
    allowed |= {'<%s<T> as std::ops::Drop>::drop' % h for h in handles(ctx)}
    allowed |= {k for _, _, k in clone_bodies(ctx)}
    allowed |= {'%s::<T>::close' % h for h in handles(ctx)}
    n = 0
    for key, f, at, how in field_writes(ctx, ('send_count', 'recv_count')):
        ctx.oblige(1)
        ctx.instance('%s writes %s (%s)' % (key, f, how))
        if not fam.allowed_for(ctx, key, allowed):
            ctx.violate(key, None, 'handle counter %s written (%s) outside new/Drop/clone/close' % (f, how), at=at, sig='write:' + f)
    for key, f, at, how in field_writes(ctx, ('recv_blocking',)):
        ctx.oblige(1)
        ctx.instance('%s writes recv_blocking (%s)' % (key, how))
        if not fam.allowed_for(ctx, key, ('internal::ChannelInternal::<T>::new', 'internal::ChannelInternal::<T>::next_send', 'internal::ChannelInternal::<T>::next_recv')):
            ctx.violate(key, None, 'wait-list kind flag recv_blocking written (%s) outside next_send/next_recv: a non-empty wait list could be mislabelled' % how, at=at, sig='write:recv_blocking')
    for key, f, at, how in field_writes(ctx, ('capacity',)):
        ctx.oblige(1)
        ctx.instance('%s writes capacity (%s)' % (key, how))
        if not fam.allowed_for(ctx, key, ('internal::ChannelInternal::<T>::new',)):
            ctx.violate(key, None, 'capacity written (%s) outside ChannelInternal::new' % how, at=at, sig='write:capacity')


@rule('H8', ['C08', 'C12', 'C18'], 'ChannelInternal::new: counts 1/1, recv_blocking false, capacity = usize::MAX iff unbounded')
def h8(ctx):
    key = 'internal::ChannelInternal::<T>::new'
    b = ctx.body(key)
    if b is None:
        ctx.violate(key, None, 'anchor missing', sig='anchor')
        return
    ctx.instance(key)
    for p, evs in ret_paths(ctx, b):
        ctx.oblige(1, sample='%s [%s]' % (key, p.signature()))
        r = p.ret
        agg = find_agg(r, 'internal::ChannelInternal')
        if agg is None:
            ctx.violate(key, p, 'new does not build a ChannelInternal: %s' % fmt(r))
            continue
        fields = dict(zip(agg[4], agg[3]))
        for gk in list(fields):
            gv = fields[gk]
            if gk in ctx.facts.j.get('ci_groups', []) and isinstance(gv, tuple) and gv and gv[0] == 'agg':
                fields.update(dict(zip(gv[4], gv[3])))  # a grouping struct built in place: its fields are the channel's
        lb = labels(evs)
        if not is_const(fields.get('recv_count', ('x',)), 1) or not is_const(fields.get('send_count', ('x',)), 1):
            ctx.violate(key, p, 'new does not start with one sender and one receiver')
        if not is_const(fields.get('recv_blocking', ('x',)), 0):
            ctx.violate(key, p, 'new does not start with recv_blocking=false')
        cap = fields.get('capacity')
        bounded = has(lb, 'arg1', 'T') and not has(lb, 'arg1', 'F')
        unbounded = has(lb, 'arg1', 'F') and not has(lb, 'arg1', 'T')
        if bounded:
            if cap != ('param', 2):
                ctx.violate(key, p, 'bounded channel capacity is not the requested size: %s' % fmt(cap))
        elif unbounded:
            if not (cap is not None and cap[0] == 'const' and cap[2] == USIZE_MAX):
                ctx.violate(key, p, 'unbounded channel capacity is not usize::MAX: %s' % fmt(cap))
        else:
            ctx.violate(key, p, 'new does not branch on `bounded`')
        wl = fields.get('wait_list')
        q = fields.get('queue')
        for nm, v in (('queue', q), ('wait_list', wl)):
            if v is None or v[0] != 'call' or v[2] not in ('std::collections::VecDeque::with_capacity', 'std::collections::VecDeque::new'):
                ctx.violate(key, p, '%s does not start empty: %s' % (nm, fmt(v)))


def find_agg(v, name, depth=0):
    if not isinstance(v, tuple) or depth > 8:
        return None
    if v and v[0] == 'agg' and v[1] == name:
        return v
    for x in v:
        if isinstance(x, tuple):
            r = find_agg(x, name, depth + 1)
            if r is not None:
                return r
    return None


# ------------------------------------------------------------------------------------------
# O1 observers
# ------------------------------------------------------------------------------------------

def observer_table(ctx):
    """name -> (kind, spec) for each handle"""
    out = {}
    for h in handles(ctx):
        pre = '%s::<T>::' % h
        out[pre + 'is_bounded'] = ('bool', lambda a: not a['cap_max'])
        out[pre + 'len'] = ('val', 'Q.len')
        out[pre + 'is_empty'] = ('bool', lambda a: a['qempty'])
        out[pre + 'is_full'] = ('bool', lambda a: a['full'])
        out[pre + 'capacity'] = ('val', 'capacity')
        out[pre + 'receiver_count'] = ('val', 'recv_count')
        out[pre + 'sender_count'] = ('val', 'send_count')
        out[pre + 'is_closed'] = ('bool', lambda a: a['sc0'] and a['rc0'])
        if h in SEND_SIDE:
            out[pre + 'is_disconnected'] = ('bool', lambda a: a['rc0'])
        else:
            out[pre + 'is_disconnected'] = ('bool', lambda a: a['sc0'])
            out[pre + 'is_terminated'] = ('bool', lambda a: a['sc0'] and a['qempty'])
    return out


ATOM_OF_LABEL = {'cap_max': 'cap_max', 'qempty': 'qempty', 'sc0': 'sc0', 'rc0': 'rc0', 'full_eq': 'full', 'room': 'notfull'}


def eval_bool(v, assign):
    """value of a returned bool expression under an atom assignment, or None if unrecognised"""
    if v is None:
        return None
    if v[0] == 'const' and v[1] == 'bool':
        return v[2] == '1'
    r = classify_bool_expr(v)
    if r is None:
        return None
    lab, pol = r
    if lab == 'both0':
        val = assign['sc0'] and assign['rc0']
    elif lab == 'room':
        val = not assign['full']
    elif lab == 'full_eq':
        val = assign['full']
    elif lab in ATOM_OF_LABEL:
        val = assign[ATOM_OF_LABEL[lab]]
    else:
        return None
    return val if pol else (not val)


def path_consistent(evs, assign):
    for e in evs:
        if e.name == 'BR':
            lab, outc = e.data['label'], e.data['outcome']
            if lab == 'room':
                if (not assign['full']) != (outc == 'T'):
                    return False
            elif lab == 'full_eq':
                if assign['full'] != (outc == 'T'):
                    return False
            elif lab in ATOM_OF_LABEL:
                if assign[ATOM_OF_LABEL[lab]] != (outc == 'T'):
                    return False
            else:
                return None  # unknown predicate in an observer
        if e.name == 'BR?':
            return None
    return True


@rule('O1', ['C18', 'C08', 'C10', 'C11', 'C12', 'C03'], 'observers: one critical section, read-only, result normalises to the reference expression')
def o1(ctx):
    import itertools
    tbl = observer_table(ctx)
    atoms = ['cap_max', 'qempty', 'sc0', 'rc0', 'full']
    for key, (kind, spec) in tbl.items():
        b = ctx.body(key)
        if b is None:
            ctx.violate(key, None, 'anchor missing: observer not found', sig='anchor')
            continue
        ctx.instance(key)
        paths = list(ret_paths(ctx, b))
        for p, evs in paths:
            ctx.oblige(1, sample='%s -> %s' % (key, fmt(p.ret)))
            locks = [e for e in evs if e.name in ('LOCK', 'TRYLOCK')]
            if len(locks) != 1:
                ctx.violate(key, p, 'observer uses %d critical sections (must be exactly one)' % len(locks))
            for e in evs:
                if e.name in ('WR', 'WRMEM', 'NEXT_SEND', 'NEXT_RECV', 'PUSH_SEND', 'PUSH_RECV', 'TERMINATE_SIGNALS', 'CANCEL_SEND', 'CANCEL_RECV', 'SIGSEND', 'SIGRECV', 'SIGTERM'):
                    ctx.violate(key, p, 'observer performs %s' % e.name, at=e.at)
                if (e.name.startswith('Q.') or e.name.startswith('WL.')) and e.name not in ('Q.len', 'Q.is_empty', 'Q.capacity', 'WL.len', 'WL.is_empty'):
                    ctx.violate(key, p, 'observer applies %s' % e.name, at=e.at)
                if e.name == 'RD' and e.sec is None:
                    ctx.violate(key, p, 'observer reads channel state outside the lock', at=e.at)
            if kind == 'val':
                r = p.ret
                ok = False
                if spec == 'Q.len':
                    ok = r is not None and r[0] == 'call' and r[2] == 'std::collections::VecDeque::len' and any(e.name == 'Q.len' and e.data['res'] == r for e in evs)
                else:
                    ok = r is not None and ci_field_load(r) == spec
                if len(paths) != 1:
                    ok = False
                if not ok:
                    ctx.violate(key, p, 'observer does not return %s: %s' % (spec, fmt(r)))
        if kind == 'bool':
            for vals in itertools.product([False, True], repeat=len(atoms)):
                a = dict(zip(atoms, vals))
                # consistency of atoms: full and qempty are independent in general (capacity 0)
                results = set()
                unknown = False
                for p, evs in paths:
                    c = path_consistent(evs, a)
                    if c is None:
                        unknown = True
                        break
                    if c:
                        results.add(eval_bool(p.ret, a))
                if unknown or None in results:
                    ctx.violate(key, None, 'observer result is not a recognised expression over {counts==0, queue empty, len==capacity, capacity==MAX}', sig='unrecognised')
                    break
                if results != {spec(a)}:
                    ctx.violate(key, None, 'observer disagrees with the reference: under %s it returns %s, reference %s' % (
                        {k: v for k, v in a.items()}, sorted(results), spec(a)), sig='truth-table')
                    break
            ctx.oblige(1)


# ------------------------------------------------------------------------------------------
# O2 panic inventory
# ------------------------------------------------------------------------------------------

PANIC_CALLEES = {
    'std::rt::panic_fmt': 'panic', 'core::panicking::panic_fmt': 'panic', 'core::panicking::panic': 'panic',
    'std::rt::begin_panic': 'panic', 'core::panicking::panic_explicit': 'panic',
    'core::panicking::unreachable_display': 'unreachable', 'core::panicking::panic_display': 'panic',
    'std::option::Option::unwrap': 'Option::unwrap', 'std::option::Option::expect': 'Option::expect',
    'std::result::Result::unwrap': 'Result::unwrap', 'std::result::Result::expect': 'Result::expect',
    'std::result::Result::unwrap_err': 'Result::unwrap_err',
    'std::ops::Index::index': 'index', 'std::ops::IndexMut::index_mut': 'index',
    'std::ops::Add::add': 'time-add', 'std::ops::Sub::sub': 'time-sub',
    'core::panicking::assert_failed': 'assert', 'std::intrinsics::abort': 'abort', 'std::process::abort': 'abort',
    'std::process::exit': 'exit', 'core::panicking::panic_nounwind': 'panic',
}

# (function, kind) -> reason it is accepted
PANIC_ALLOWED = {
    ('Sender::<T>::send_timeout', 'Option::unwrap'): 'deadline = now.checked_add(duration).unwrap(): only for durations overflowing Instant',
    ('Sender::<T>::send_option_timeout', 'Option::unwrap'): 'deadline overflow; data.take().unwrap() is dominated by the is_none() panic check',
    ('Sender::<T>::send_option_timeout', 'panic'): 'documented: None option',
    ('Receiver::<T>::recv_timeout', 'Option::unwrap'): 'deadline overflow only',
    ('Sender::<T>::try_send_option', 'panic'): 'documented: None option',
    ('Sender::<T>::try_send_option', 'Option::unwrap'): 'dominated by the is_none() check',
    ('Sender::<T>::try_send_option_realtime', 'panic'): 'documented: None option',
    ('Sender::<T>::try_send_option_realtime', 'Option::unwrap'): 'dominated by the is_none() check',
    ('AsyncSender::<T>::try_send_option', 'panic'): 'documented: None option',
    ('AsyncSender::<T>::try_send_option', 'Option::unwrap'): 'dominated by the is_none() check',
    ('AsyncSender::<T>::try_send_option_realtime', 'panic'): 'documented: None option',
    ('AsyncSender::<T>::try_send_option_realtime', 'Option::unwrap'): 'dominated by the is_none() check',
    ("<future::SendFuture<'_, T> as futures_core::Future>::poll", 'panic'): 'documented: polled after completion',
    ("<future::ReceiveFuture<'_, T> as futures_core::Future>::poll", 'panic'): 'documented: polled after completion',
    ('signal::Signal::<T>::wait', 'panic'): 'unreachable!(): a sync waiter never carries an async waker',
    ('signal::Signal::<T>::will_wake', 'panic'): 'unreachable!(): only called on registered async signals',
    ('signal::Signal::<T>::wake', 'panic'): 'unreachable!(): KanalWaker::None is never in the wait list',
    ('signal::Signal::<T>::wake', 'Option::unwrap'): 'thread handle is stored before LOCKED_STARVATION is published',
    ('pointer::KanalPtr::<T>::new_owned', 'panic'): 'unreachable!(): dominated by size_of::<T>() <= pointer size',
    ('backoff::get_parallelism', 'Option::unwrap'): 'NonZeroUsize::new(1).unwrap() on a constant',
    ('internal::acquire_internal', 'Result::unwrap'): 'std-mutex poisoning only',
    ('Receiver::<T>::recv_timeout', 'time-add'): 'deadline overflow only (same surface as checked_add().unwrap())',
    ('Sender::<T>::send_timeout', 'time-add'): 'deadline overflow only (same surface as checked_add().unwrap())',
    ('Sender::<T>::send_option_timeout', 'time-add'): 'deadline overflow only (same surface as checked_add().unwrap())',
    ('internal::ChannelInternal::<T>::cancel_send_signal', 'index'): 'index-based scan of the wait list, bounded by its loop condition',
    ('internal::ChannelInternal::<T>::cancel_recv_signal', 'index'): 'index-based scan of the wait list, bounded by its loop condition',
    ('internal::ChannelInternal::<T>::send_signal_exists', 'index'): 'index-based scan of the wait list, bounded by its loop condition',
    ('internal::ChannelInternal::<T>::recv_signal_exists', 'index'): 'index-based scan of the wait list, bounded by its loop condition',
    ('backoff::randomize', 'assert:RemainderByZero'): 'dead code: randomize() is not called by the library',
    ('backoff::spin_cond', 'assert:DivisionByZero'): 'SPINS / 2 with the constant divisor 2',
}


_PINNED_API = None


def pinned_api():
    global _PINNED_API
    if _PINNED_API is None:
        import json
        import os
        _PINNED_API = set(json.load(open(os.path.join(os.path.dirname(os.path.abspath(__file__)), 'pinned_api.json'))))
    return _PINNED_API


def new_public_root(ctx, key):
    """key is a public function / method that does not exist in the pinned public API, and no body outside the set of such
    new public functions (transitively) calls it"""
    b = ctx.facts.bodies.get(key)
    if b is None or b.j.get('vis') != 'Public' or b.j.get('def_kind') not in ('Fn', 'AssocFn') or b.j.get('impl_trait'):
        return False
    if key in pinned_api():
        return False
    callers = fam._callers(ctx.facts)
    seen = {key}
    work = [key]
    while work:
        k = work.pop()
        for c in callers.get(k, ()):
            if c in seen:
                continue
            seen.add(c)
            cb = ctx.facts.bodies.get(c)
            root = c
            if cb is not None and cb.j.get('def_kind') == 'Closure':
                work.append(c)
                continue
            if cb is None or cb.j.get('vis') != 'Public' or cb.j.get('impl_trait') or root in pinned_api():
                if cb is not None and fam.is_delegate(ctx.facts, c):
                    work.append(c)  # a private helper: look at who calls it
                    continue
                return False
            work.append(c)
    return True


def panic_feasible(ctx, owner, kind):
    """can the API function `owner`, with its private helpers spliced in and constants folded, reach a construct of this kind?
    (True whenever that cannot be decided)"""
    if kind not in ('panic', 'Option::unwrap'):
        return True
    b = ctx.facts.bodies.get(owner)
    if b is None:
        return True
    ps = ctx.paths(b)
    if ps is None:
        return True
    if kind == 'panic':
        return any(p.end not in ('return', 'unreachable') for p in ps)
    return any(e.kind == 'call' and e.name == 'std::option::Option::unwrap' for p in ps for e in p.events)


@rule('O2', ['C18'], 'panic inventory: no new panic-capable construct in the library')
def o2(ctx):
    seen = set()
    for key, b in ctx.facts.bodies.items():
        if 'std::fmt::' in key:
            continue
        live = b.live_blocks()
        for bb, t in b.all_calls():
            if bb not in live:
                continue  # e.g. the body of a debug_assert!: compiled out of the analysed (release) semantics
            fn = t.get('fn')
            if not fn:
                continue
            n = canon(fn['path'])
            kind = PANIC_CALLEES.get(n)
            if kind is None:
                continue
            if kind in ('time-add', 'time-sub'):
                if not any('Instant' in a or 'Duration' in a for a in fn['args']):
                    continue
            seen.add((key, kind, t.get('at')))
        for bi in sorted(live):
            t = b.blocks[bi]['term']
            if t['k'] == 'assert':
                seen.add((key, 'assert:' + str(t.get('msg')).split('(')[0], t.get('at')))
    for key, kind, at in sorted(seen, key=str):
        ctx.oblige(1, sample='%s may panic via %s' % (key, kind))
        ctx.instance('%s %s' % (key, kind))
        if (key, kind) not in PANIC_ALLOWED:
            if new_public_root(ctx, key):
                # a public function that the pinned API does not have and that nothing of the pinned API calls: what it may
                # panic on is part of its own, new contract (a `send_option` that documents `None` as a panic like its sibling);
                # the inventory is about the behaviour of the existing operations
                ctx.note('%s: panic-capable construct (%s) in a NEW public function, not charged to the existing API' % (key, kind))
                continue
            os_ = fam.owners(ctx, key)
            if fam.is_delegate(ctx.facts, key) and all((o, kind) in PANIC_ALLOWED or new_public_root(ctx, o) or not panic_feasible(ctx, o, kind) for o in os_):
                # a private helper / closure: the construct is accounted for in every API function it serves, or cannot be
                # reached from that function (`helper(&mut Some(data))`: the helper's `data.take().unwrap()` folds away)
                continue
            ctx.violate(key, None, 'new panic-capable construct (%s) not in the accepted inventory' % kind, at=at, sig='panic:' + kind)
