"""S rules: SEND family, per path.  See DESIGN.md §3.3."""
from engine import rule
import fam
import sem
from sem import labels, has, contains
from mir import fmt

STATE_EVENTS_SEND = ('NEXT_RECV', 'Q.push_back', 'PUSH_SEND')


def zero_arm_old(body, evs):
    """for poll bodies only the Zero arm is a channel operation; other arms are F rules"""
    if fam.body_kind(body)[0] != 'future':
        return True
    for e in evs:
        if e.name == 'BR' and e.data['label'] == 'fstate':
            return e.data['outcome'] == 'Zero'
    return False


def send_paths(ctx):
    bodies = fam.send_bodies(ctx)
    for b in bodies:
        ps = ctx.paths(b)
        if ps is None:
            ctx.violate(b.key, None, 'cannot analyse: path explosion', sig='paths')
            continue
        for p in ps:
            if p.end != 'return':
                continue
            evs = ctx.sem(p)
            if not zero_arm(b, evs):
                continue
            yield b, p, evs


@rule('S0', ['C01', 'C05', 'C08', 'C10', 'C11', 'C13', 'C14', 'C18', 'C09'], 'SEND family inventory')
def s0(ctx):
    fam.check_family(ctx, fam.send_bodies(ctx), fam.expected_send(ctx), 'SEND')
    ctx.oblige(len(fam.expected_send(ctx)))


@rule('S1', ['C10', 'C11', 'C18', 'C09'], 'closed-first on the send side')
def s1(ctx):
    for b, p, evs in send_paths(ctx):
        for e in evs:
            if e.name in STATE_EVENTS_SEND:
                ctx.oblige(1, sample='%s: %s requires rc0:F in its section [%s]' % (b.key, e.name, p.signature()))
                ctx.instance('%s %s' % (b.key, e.name))
                lb = labels(evs, upto=e.idx, sec=e.sec)
                if e.sec is None or not has(lb, 'rc0', 'F'):
                    ctx.violate(b.key, p, '%s without a preceding recv_count!=0 test in the same critical section' % e.name, at=e.at)
        lb = labels(evs)
        if has(lb, 'rc0', 'T'):
            ctx.oblige(1)
            bad = [e for e in evs if e.name in STATE_EVENTS_SEND + ('SIGSEND',)]
            if bad:
                ctx.violate(b.key, p, 'channel state touched (%s) although recv_count==0' % bad[0].name, at=bad[0].at)
            shape = fam.final_ret(p, evs)
            kind = fam.success_kind(shape)
            if has(lb, 'sc0', 'T') and not has(lb, 'sc0', 'F'):
                want = 'err:Closed'
            elif has(lb, 'sc0', 'F') and not has(lb, 'sc0', 'T'):
                want = 'err:ReceiveClosed'
            else:
                want = None
            if want is None:
                ctx.violate(b.key, p, 'recv_count==0 path does not distinguish Closed from ReceiveClosed by send_count')
            elif kind != want:
                ctx.violate(b.key, p, 'recv_count==0, send_count%s0 must return %s, returns %s' % (
                    '==' if want == 'err:Closed' else '!=', want, kind))
            # send_count must be read in the same section as recv_count
            rc = [e for e in evs if e.name == 'RD' and e.data['field'] == 'recv_count']
            sc = [e for e in evs if e.name == 'RD' and e.data['field'] == 'send_count']
            if rc and sc and (sc[0].sec is None or sc[0].sec != rc[0].sec):
                ctx.violate(b.key, p, 'send_count read outside the critical section that read recv_count', at=sc[0].at)


@rule('S2', ['C01', 'C03', 'C07'], 'hand-off only to a waiter popped under the lock on this path')
def s2(ctx):
    for b, p, evs in send_paths(ctx):
        nexts = [e for e in evs if e.name == 'NEXT_RECV']
        for e in evs:
            if e.name == 'SIGSEND':
                ctx.oblige(1, sample='%s: SIGSEND terminator is the Some payload of next_recv' % b.key)
                ctx.instance('%s SIGSEND' % b.key)
                t = e.data['args'][0]
                ok = False
                for n in nexts:
                    if n.idx < e.idx and t == ('field', ('downcast', n.data['res'], 'Some'), '0'):
                        ok = True
                if not ok:
                    ctx.violate(b.key, p, 'SignalTerminator::send on a terminator that is not the payload of a next_recv() on this path: %s' % fmt(t), at=e.at)
        # every popped receiver must be completed exactly once
        for n in nexts:
            payload = ('field', ('downcast', n.data['res'], 'Some'), '0')
            lb_some = [e for e in evs if e.name == 'BR' and e.data['label'] == 'next_recv' and e.data['outcome'] == 'Some' and e.idx > n.idx]
            if lb_some:
                ctx.oblige(1)
                uses = [e for e in evs if e.name in ('SIGSEND', 'SIGTERM', 'SIGSENDCOPY') and e.data['args'][0] == payload]
                if len(uses) != 1:
                    ctx.violate(b.key, p, 'receiver popped from the wait list is completed %d times (must be exactly once)' % len(uses), at=n.at)


@rule('S3', ['C08', 'C02', 'C18', 'C09'], 'admission to the buffer')
def s3(ctx):
    for b, p, evs in send_paths(ctx):
        for e in evs:
            if e.name == 'Q.push_back':
                ctx.oblige(1, sample='%s: push_back requires next_recv:None and room:T [%s]' % (b.key, p.signature()))
                ctx.instance('%s Q.push_back' % b.key)
                lb = labels(evs, upto=e.idx, sec=e.sec)
                if e.sec is None:
                    ctx.violate(b.key, p, 'queue.push_back outside a critical section', at=e.at)
                    continue
                if not has(lb, 'next_recv', 'None'):
                    ctx.violate(b.key, p, 'buffered although no next_recv()==None was observed in this critical section (a waiting receiver may be bypassed)', at=e.at)
                if not has(lb, 'room', 'T') or has(lb, 'room', 'F'):
                    ctx.violate(b.key, p, 'buffered without the `queue.len() < capacity` edge in this critical section', at=e.at)
            if e.name.startswith('Q.') and e.name not in ('Q.push_back', 'Q.len', 'Q.is_empty', 'Q.capacity'):
                ctx.violate(b.key, p, 'send-side body applies %s to the buffer' % e.name, at=e.at)
        # unrecognised comparisons involving len/capacity
        for e in evs:
            if e.name == 'BR' and str(e.data['label']).startswith('unrec:len-capacity'):
                ctx.violate(b.key, p, 'unrecognised comparison between queue length and capacity (not `len < capacity`)', at=e.at)
            if e.name == 'BR' and e.data['label'] == 'full_eq':
                ctx.violate(b.key, p, 'admission uses `len == capacity` instead of `len < capacity`', at=e.at)


def signal_of_terminator(t):
    """get_terminator(&sig) -> ('local', place, snapshot) or ('this', place)"""
    if t[0] == 'call' and t[2] == 'signal::Signal::get_terminator' and t[3]:
        r = t[3][0]
        if r[0] in ('ref', 'rawptr'):
            return r
    return None


@rule('S4', ['C08', 'C02', 'C06', 'C18', 'C09'], 'registration of a blocked sender')
def s4(ctx):
    for b, p, evs in send_paths(ctx):
        kind, idx, toks = fam.tokens(b, evs)
        for e in evs:
            if e.name != 'PUSH_SEND':
                continue
            ctx.oblige(1, sample='%s: push_send requires next_recv:None, room:F, own signal over the payload slot' % b.key)
            ctx.instance('%s PUSH_SEND' % b.key)
            lb = labels(evs, upto=e.idx, sec=e.sec)
            if e.sec is None:
                ctx.violate(b.key, p, 'push_send outside a critical section', at=e.at)
                continue
            if not has(lb, 'next_recv', 'None'):
                ctx.violate(b.key, p, 'sender registered without next_recv()==None in this critical section', at=e.at)
            if not has(lb, 'room', 'F') or has(lb, 'room', 'T'):
                ctx.violate(b.key, p, 'sender registered without the buffer-full edge (`len < capacity` false) in this critical section', at=e.at)
            t = e.data['args'][0]
            r = signal_of_terminator(t)
            if r is None:
                ctx.violate(b.key, p, 'push_send argument is not get_terminator() of a signal: %s' % fmt(t), at=e.at)
                continue
            if kind == 'future':
                pl = r[1]
                if not (pl[0] == 'pfield' and pl[2] == 'sig'):
                    ctx.violate(b.key, p, 'future registers a signal that is not its own `sig` field', at=e.at)
                regs = [x for x in evs if x.name == 'SIG.register_waker' and x.idx < e.idx and x.sec == e.sec]
                if not regs and not sem.waker_kept(evs, e.idx):
                    # (a stream that kept its signal may skip the registration when the stored waker already wakes this task)
                    ctx.violate(b.key, p, 'future registered without register_waker(cx.waker()) earlier in the same critical section', at=e.at)
                elif regs:
                    w = regs[-1].data['args'][1] if len(regs[-1].data['args']) > 1 else None
                    if w is None or not (w[0] == 'call' and w[2] == 'std::task::Context::waker'):
                        ctx.violate(b.key, p, 'registered waker is not cx.waker()', at=regs[-1].at)
            else:
                snap = r[2] if len(r) > 2 else None
                if snap is None or not (snap[0] == 'call' and snap[2] == 'signal::Signal::new_sync'):
                    ctx.violate(b.key, p, 'registered signal is not a Signal::new_sync created in this body', at=e.at)
                else:
                    ptr = snap[3][0]
                    slot_ok = False
                    if ptr[0] == 'call' and ptr[2] == 'pointer::KanalPtr::new_from' and ptr[3]:
                        a = ptr[3][0]
                        # as_mut_ptr(&mut slot) with slot = MaybeUninit::new(tok), or &mut d with d = tok
                        if a[0] == 'call' and a[2] == 'std::mem::MaybeUninit::as_mut_ptr' and a[3]:
                            ss = fam.ref_snapshot(a[3][0])
                            slot_ok = fam.slot_of(ss, toks)
                        elif a[0] in ('ref', 'rawptr'):
                            ss = fam.ref_snapshot(a)
                            slot_ok = ss is not None and fam.is_tok(ss, toks)
                        else:
                            # &mut *manually_drop  (DerefMut on a ManuallyDrop<T> slot), possibly behind a pointer cast
                            x = a
                            while x[0] == 'cast':
                                x = x[2]
                            if x[0] == 'call' and x[2] in ('std::ops::DerefMut::deref_mut', 'std::ops::Deref::deref', 'std::mem::ManuallyDrop::deref_mut') and x[3]:
                                ss = fam.ref_snapshot(x[3][0])
                                slot_ok = fam.slot_of(ss, toks)
                    if not slot_ok:
                        ctx.violate(b.key, p, 'registered signal does not point at the slot holding the payload: %s' % fmt(ptr), at=e.at)


def consumers(evs, toks):
    pushes = [e for e in evs if e.name == 'Q.push_back' and e.data['args'] and fam.is_tok(e.data['args'][0], toks)]
    sends = [e for e in evs if e.name == 'SIGSEND' and len(e.data['args']) > 1 and fam.is_tok(e.data['args'][1], toks)]
    return pushes, sends


def last_wait_outcome(evs, after):
    out = None
    for e in evs:
        if e.idx > after and e.name == 'BR' and e.data['label'] == 'waitOK':
            out = e.data['outcome']
    return out


@rule('S5', ['C01', 'C08', 'C14', 'C18', 'C09', 'C13'], 'result truth of sends')
def s5(ctx):
    for b, p, evs in send_paths(ctx):
        kind, idx, toks = fam.tokens(b, evs)
        shape = fam.final_ret(p, evs)
        rk = fam.success_kind(shape)
        pushes, sends = consumers(evs, toks)
        # any push_back / SIGSEND in a send body must carry the payload token
        for e in evs:
            if e.name == 'Q.push_back' and e not in pushes:
                ctx.violate(b.key, p, 'value pushed into the buffer is not the caller\'s payload: %s' % fmt(e.data['args'][0] if e.data['args'] else None), at=e.at)
            if e.name == 'SIGSEND' and e not in sends:
                ctx.violate(b.key, p, 'value handed to the waiting receiver is not the caller\'s payload', at=e.at)
        regs = [e for e in evs if e.name == 'PUSH_SEND']
        handoff = 0
        if regs:
            lw = last_wait_outcome(evs, regs[-1].idx)
            if lw == 'T':
                handoff = 1
        n = len(pushes) + len(sends) + handoff
        ctx.instance('%s result %s' % (b.key, rk))
        ctx.oblige(1, sample='%s [%s] -> %s with %d push, %d direct, %d hand-off' % (b.key, p.signature(), rk, len(pushes), len(sends), handoff))
        if rk == 'ok':
            if n != 1:
                ctx.violate(b.key, p, 'success returned but the value moved %d times (buffer %d, direct %d, hand-off %d)' % (n, len(pushes), len(sends), handoff))
        elif rk == 'pending':
            if kind != 'future' or not regs or pushes or sends:
                ctx.violate(b.key, p, 'Pending returned without exactly a registration')
        elif rk.startswith('err:') or rk == 'refused':
            if pushes or sends:
                ctx.violate(b.key, p, '%s returned although the value was handed over' % rk)
            if handoff:
                ctx.violate(b.key, p, '%s returned although the blocked hand-off succeeded' % rk)
            if regs:
                after = regs[-1].idx
                lb = {}
                for e in evs:
                    if e.idx > after and e.name == 'BR':
                        lb.setdefault(e.data['label'], []).append(e.data['outcome'])
                if not (has(lb, 'waitOK', 'F') or has(lb, 'term', 'T') or has(lb, 'cancel', 'T')):
                    ctx.violate(b.key, p, '%s returned after registration without a failed wait, termination or successful cancel' % rk)
            if rk == 'refused' and regs:
                ctx.violate(b.key, p, 'Ok(false) returned by a body that registered in the wait list')
        else:
            ctx.violate(b.key, p, 'unrecognised return shape %s' % (shape,))
        # Ok(false) <=> room:F and next_recv:None (or try-lock failed)
        if rk == 'refused':
            lb = labels(evs)
            if not (has(lb, 'trylocked', 'None') or (has(lb, 'next_recv', 'None') and has(lb, 'room', 'F'))):
                ctx.violate(b.key, p, 'Ok(false) without (buffer full and no receiver waiting) or a failed try-lock')


def disposals(evs, kind, idx, toks):
    out = []
    for e in evs:
        if e.name == 'DROP' and fam.owns(e.data['val'], toks):
            out.append(e)
        elif e.name == 'MEMDROP' and fam.owns(e.data['val'], toks):
            out.append(e)
        elif e.name == 'SLOT.assume_init_drop':
            ss = fam.ref_snapshot(e.data['args'][0]) if e.data['args'] else None
            if fam.slot_of(ss, toks):
                out.append(e)
        elif e.name == 'FUT.drop_local_data' and kind == 'future':
            out.append(e)
        elif e.name == 'CALL' and e.data['callee'] in ('std::ptr::drop_in_place', 'std::mem::ManuallyDrop::drop'):
            out.append(e)
        elif e.name == 'CALL' and e.data['callee'] == 'std::mem::ManuallyDrop::into_inner' and e.data['args'] and fam.slot_of(e.data['args'][-1], toks):
            pass  # moves the value out again: whoever receives it disposes of it
    return out


@rule('S6', ['C05', 'C13', 'C01', 'C11', 'C10'], 'disposal of the payload on every send path')
def s6(ctx):
    for b, p, evs in send_paths(ctx):
        kind, idx, toks = fam.tokens(b, evs)
        shape = fam.final_ret(p, evs)
        rk = fam.success_kind(shape)
        if rk == 'pending':
            continue
        lb = labels(evs)
        ctx.oblige(1)
        if kind == 'value':
            disp = disposals(evs, kind, idx, toks)
            forgets = [e for e in evs if e.name == 'FORGET' and fam.owns(e.data['val'], toks)]
            if rk == 'ok':
                if disp:
                    ctx.violate(b.key, p, 'success path disposes of the payload (%s) although the receiver/buffer owns it: double drop' % disp[0].name, at=disp[0].at)
            else:
                if forgets:
                    ctx.violate(b.key, p, 'payload forgotten on a non-success path (leak)', at=forgets[0].at)
                if len(disp) > 1:
                    ctx.violate(b.key, p, 'payload disposed of %d times on a non-success path' % len(disp), at=disp[1].at)
                if len(disp) == 0 and not has(lb, 'needs_drop', 'F'):
                    ctx.violate(b.key, p, 'non-success return with 0 disposals of the payload (leak)')
            ctx.instance('%s value path %s' % (b.key, rk))
        elif kind == 'option':
            takes = [e for e in evs if e.name == 'OPT.take' and e.data['args'] and e.data['args'][0] == ('param', idx)]
            restores = [e for e in evs if e.name == 'WRMEM' and e.data['place'] == ('deref', ('param', idx))
                        and e.data['val'][0] == 'agg' and e.data['val'][2] == 'Some' and fam.owns(e.data['val'], toks)]
            disp = disposals(evs, kind, idx, toks)
            if rk == 'ok':
                if len(takes) != 1:
                    ctx.violate(b.key, p, 'success but the option was taken %d times' % len(takes))
                if restores:
                    ctx.violate(b.key, p, 'success but the value was put back into the option', at=restores[0].at)
                if disp:
                    ctx.violate(b.key, p, 'success path disposes of the payload (%s of the local copy) although the receiver/buffer owns it: double drop' % disp[0].name, at=disp[0].at)
            else:
                if disp:
                    ctx.violate(b.key, p, 'failure path drops the payload instead of handing it back in the option', at=disp[0].at)
                if len(takes) != len(restores):
                    ctx.violate(b.key, p, 'failure return with the option left None (%d take, %d restore)' % (len(takes), len(restores)))
                if len(takes) > 1:
                    ctx.violate(b.key, p, 'option taken %d times' % len(takes))
            ctx.instance('%s option path %s' % (b.key, rk))
        elif kind == 'future':
            disp = disposals(evs, kind, idx, toks)
            reads = [e for e in evs if e.name == 'FUT.read_local_data']
            if rk == 'ok':
                if disp:
                    ctx.violate(b.key, p, 'future success path drops its local data', at=disp[0].at)
                # Zero arm success: the local data must have been read exactly once
                if len(reads) != 1:
                    ctx.violate(b.key, p, 'future success in the Zero arm read the local data %d times' % len(reads))
            else:
                if reads:
                    ctx.violate(b.key, p, 'future failure path read the local data out (it would be dropped twice or leaked)', at=reads[0].at)
                if len(disp) > 1:
                    ctx.violate(b.key, p, 'future failure path drops local data %d times' % len(disp))
                if len(disp) == 0 and not has(lb, 'needs_drop', 'F'):
                    ctx.violate(b.key, p, 'future failure path never drops its local data (leak)')
            ctx.instance('%s future path %s' % (b.key, rk))


@rule('S7', ['C13'], 'timed send: Timeout only after expiry and successful cancel')
def s7(ctx):
    for b, p, evs in send_paths(ctx):
        shape = fam.final_ret(p, evs)
        rk = fam.success_kind(shape)
        wts = [e for e in evs if e.name == 'SIG.wait_timeout']
        for w in wts:
            ctx.oblige(1)
            ctx.instance('%s wait_timeout' % b.key)
            dl = w.data['args'][1] if len(w.data['args']) > 1 else None
            nows = [e for e in evs if e.name == 'NOW' and e.idx < w.idx]
            regs = [e for e in evs if e.name in ('PUSH_SEND',) and e.idx < w.idx]
            ok = False
            for n in nows:
                if dl is not None and contains(dl, n.data['res']) and (not regs or n.idx < regs[0].idx):
                    ok = True
            dur_ok = False
            for i in range(1, b.arg_count + 1):
                if 'Duration' in b.locals[i]['ty'] and dl is not None and contains(dl, ('param', i)):
                    dur_ok = True
            # (a `*_deadline(.., deadline: Instant)` variant: the caller's instant IS the deadline)
            given = any(b.locals[i]['ty'] == 'std::time::Instant' and dl == ('param', i) for i in range(1, b.arg_count + 1))
            if not given and (not ok or not dur_ok):
                ctx.violate(b.key, p, 'wait_timeout deadline is not Instant::now()+duration evaluated before registration: %s' % fmt(dl), at=w.at)
        # an unbounded wait after the timed wait is allowed only once the cancel attempt (under the blocking lock)
        # has FAILED, i.e. a peer owns the waiter and will finish shortly; otherwise the deadline is ignored
        for w in wts:
            later = [e for e in evs if e.name == 'SIG.wait' and e.idx > w.idx]
            for lw in later:
                ctx.oblige(1)
                between = [(e.data['label'], e.data['outcome']) for e in evs if e.name == 'BR' and w.idx < e.idx < lw.idx]
                if ('cancel', 'F') not in between:
                    ctx.violate(b.key, p, 'after the timed wait expired the operation falls into an unbounded wait without a failed cancel attempt in between (it stays registered past its deadline and never reports Timeout)', at=lw.at)
                if ('trylocked', 'None') in between or ('trylocked', 'Some') in between:
                    ctx.violate(b.key, p, 'the post-deadline cancel uses a try-lock: when the lock is busy the waiter is not removed', at=lw.at)
        if rk == 'err:Timeout':
            ctx.oblige(1, sample='%s Timeout path [%s]' % (b.key, p.signature()))
            regs = [e for e in evs if e.name == 'PUSH_SEND']
            if not regs:
                ctx.violate(b.key, p, 'Timeout returned by a send that never registered')
                continue
            after = regs[-1].idx
            seq = [(e.data['label'], e.data['outcome'], e) for e in evs if e.idx > after and e.name == 'BR']
            wt_f = [x for x in seq if x[0] == 'waitOK' and x[1] == 'F' and x[2].data['val'][0] == 'call' and x[2].data['val'][2] == 'signal::Signal::wait_timeout']
            term_f = [x for x in seq if x[0] == 'term' and x[1] == 'F']
            canc_t = [x for x in seq if x[0] == 'cancel' and x[1] == 'T']
            if not wt_f:
                ctx.violate(b.key, p, 'Timeout returned without wait_timeout() having returned false')
            if not canc_t:
                ctx.violate(b.key, p, 'Timeout returned without a successful cancel_send_signal (the entry may still be in the wait list)')
            else:
                c = canc_t[-1][2]
                # the section is that of the cancel CALL (the guard may be a temporary released before the branch)
                calls_ = [e for e in evs if e.name == 'CANCEL_SEND' and e.idx < c.idx]
                if calls_:
                    c = calls_[-1]
                if c.sec is None or c.sec == regs[-1].sec:
                    ctx.violate(b.key, p, 'cancel_send_signal not evaluated in its own later critical section', at=c.at)
                if wt_f and wt_f[0][2].idx > c.idx:
                    ctx.violate(b.key, p, 'cancel precedes the expired wait')
            if not term_f and not canc_t:
                pass


def sync_blocking(body):
    return fam.body_kind(body)[0] != 'future'


@rule('S8', ['C07', 'C13'], 'a registered sync sender stays until released, cancelled or terminated')
def s8(ctx):
    for b, p, evs in send_paths(ctx):
        if not sync_blocking(b):
            continue
        regs = [e for e in evs if e.name == 'PUSH_SEND']
        if not regs:
            continue
        ctx.oblige(1, sample='%s [%s]' % (b.key, p.signature()))
        ctx.instance('%s blocked path' % b.key)
        after = regs[-1].idx
        ok = False
        for e in evs:
            if e.idx <= after:
                continue
            if e.name == 'SIG.wait':
                ok = True
            if e.name == 'BR' and (e.data['label'], e.data['outcome']) in (('waitOK', 'T'), ('term', 'T'), ('cancel', 'T')):
                ok = True
        if not ok:
            ctx.violate(b.key, p, 'returns while its signal may still be in the wait list (no wait() / successful wait / termination / successful cancel after push_send)')
        # the waits must be on the registered signal
        r = signal_of_terminator(regs[-1].data['args'][0])
        if r is not None and r[1][0] == 'local':
            sl = r[1][1]
            for e in evs:
                if e.idx > after and e.name in ('SIG.wait', 'SIG.wait_timeout', 'SIG.is_terminated', 'CANCEL_SEND'):
                    a = e.data['args'][0] if e.name != 'CANCEL_SEND' else (e.data['args'][0] if e.data['args'] else None)
                    if a is None or a[0] not in ('ref', 'rawptr') or a[1] != r[1]:
                        ctx.violate(b.key, p, '%s applied to a signal other than the registered one' % e.name, at=e.at)
            if len(r[1]) > 2:
                continue  # the signal lives in a spliced callee (a wrapper delegating to another entry point): checked there
            # the signal local must never be moved or copied by value after its address was taken
            for bi, blk in enumerate(b.blocks):
                if blk['cleanup']:
                    continue
                ops = []
                for s in blk['stmts']:
                    if s['k'] == 'assign':
                        ops += operands_of_rvalue(s['rv'])
                t = blk['term']
                if t['k'] == 'call':
                    ops += t['args']
                for o in ops:
                    if o.get('k') in ('move', 'copy') and o['p']['l'] == sl and not o['p']['p']:
                        ctx.violate(b.key, p, 'the registered signal local is moved by value (its address is in the wait list)', at=t.get('at'))


def operands_of_rvalue(rv):
    k = rv['k']
    if k in ('use', 'cast', 'repeat'):
        return [rv['o']]
    if k == 'bin':
        return [rv['a'], rv['b']]
    if k == 'un':
        return [rv['a']]
    if k == 'agg':
        return list(rv['fields'])
    return []


FORBIDDEN_BLOCKING = {
    'internal::ChannelInternal::push_send', 'internal::ChannelInternal::push_recv',
    'signal::Signal::wait', 'signal::Signal::wait_timeout', 'signal::Signal::async_blocking_wait',
    'std::thread::park', 'std::thread::sleep', 'std::thread::park_timeout', 'backoff::sleep',
    'std::thread::yield_now', 'backoff::yield_now_std', 'backoff::yield_now', 'backoff::spin_wait',
}
FORBIDDEN_REALTIME = {
    'internal::acquire_internal', 'lock_api::Mutex::lock', 'backoff::spin_cond',
    'std::sync::Mutex::lock', 'lock_api::RawMutex::lock', 'mutex::RawMutexLock::lock_no_inline',
}


def transitive_callees(facts, body, stop=()):
    """crate-local call graph closure; returns dict callee -> chain"""
    seen = {}
    work = [(body, [body.key])]
    visited = {body.key}
    while work:
        b, chain = work.pop()
        for bb, t in b.all_calls():
            fn = t.get('fn')
            if not fn:
                continue
            name = mircanon(fn['path'])
            if name not in seen:
                seen[name] = chain + [name]
            tgt = fn.get('resolved') or fn['path']
            if name in stop:
                continue
            for cand in (fn['path'], fn.get('resolved')):
                if cand and cand in facts.bodies and cand not in visited:
                    visited.add(cand)
                    work.append((facts.bodies[cand], chain + [cand]))
            # closures passed as arguments
        for bb, blk in enumerate(b.blocks):
            if blk['cleanup']:
                continue
            for s in blk['stmts']:
                if s['k'] == 'assign' and s['rv']['k'] == 'agg' and s['rv'].get('ak') == 'closure':
                    cn = s['rv']['name']
                    if cn in facts.bodies and cn not in visited:
                        visited.add(cn)
                        work.append((facts.bodies[cn], chain + [cn]))
    return seen


def mircanon(p):
    from mir import canon
    return canon(p)


def nonblocking_bodies(ctx):
    out = []
    for key, b in ctx.facts.bodies.items():
        nm = b.j.get('name', '')
        if fam.is_helper_body(key):
            continue
        if nm.startswith('try_') or nm == 'drain_into':
            out.append(b)
    return out


PROGRESS_EV = ('Q.push_back', 'SIGSEND', 'SIGRECV', 'Q.drain_all', 'WL.drain_senders')


def batch_loop_ok(ctx, b):
    """a `try_*` method that is a batch of the single non-blocking operations (`while out.len() < n { match self.try_recv()? {
    Some(v) => out.push(v), None => break } }`): every cycle of the body runs one of the non-blocking public operations, and on
    no path (two rounds unrolled) is a round that moved nothing followed by another round - i.e. the loop goes on only while
    values keep moving, it never retries (= waits for a peer)."""
    for comp in b.sccs():
        if not (len(comp) > 1 or comp[0] in b.succs(comp[0])):
            continue
        ok = False
        for bi in comp:
            t = b.blocks[bi]['term']
            if t['k'] == 'call' and t.get('fn') and t['fn'].get('local'):
                n = t['fn'].get('name', '')
                if n.startswith('try_') or n == 'drain_into':
                    ok = True
        if not ok:
            return False
    ps = b.paths(2)
    if not ps:
        return False
    for p in ps:
        evs = ctx.sem(p)
        secs = []
        cur = None
        for e in evs:
            if e.name in ('LOCK', 'TRYLOCK', 'TRYLOCK_CALL'):
                if e.name == 'TRYLOCK' and cur is not None and cur and cur[-1].name == 'TRYLOCK_CALL':
                    cur.append(e)
                    continue
                cur = [e]
                secs.append(cur)
            elif cur is not None:
                cur.append(e)
        for sec in secs[:-1]:
            moved = any(e.name in PROGRESS_EV for e in sec) or any(
                e.name == 'BR' and e.data['label'] == 'pop' and e.data['outcome'] == 'Some' for e in sec)
            if not moved:
                return False
    return True


@rule('S9', ['C14', 'C19'], 'non-blocking operations never reach a wait, the wait list registration, or (realtime) the blocking lock')
def s9(ctx):
    exp = 12 if ctx.has_async() else 6
    bodies = nonblocking_bodies(ctx)
    for b in bodies:
        nm = b.j.get('name', '')
        ctx.instance('%s' % b.key)
        ctx.oblige(1, sample='%s: transitive callees contain no wait/park/registration' % b.key)
        # helpers next_* / acquire are summarised; lock acquisition closure is checked by M rules
        stop = {'internal::acquire_internal', 'internal::try_acquire_internal'}
        tc = transitive_callees(ctx.facts, b, stop=stop)
        for f in sorted(FORBIDDEN_BLOCKING & set(tc)):
            ctx.violate(b.key, None, 'non-blocking operation can reach %s via %s' % (f, ' -> '.join(tc[f])), sig=f)
        if nm != 'drain_into' and b.has_cycle() and not batch_loop_ok(ctx, b):
            ctx.violate(b.key, None, 'non-blocking operation contains a loop', sig='cycle')
        # every crate-local body it can reach is loop-free as well (bounded number of steps), except the scans over the
        # wait list, which are bounded by its length
        visited = set()
        work = [b]
        while work:
            cur = work.pop()
            for bb, t in cur.all_calls():
                fn = t.get('fn')
                if not fn or not fn.get('local'):
                    continue
                if mircanon(fn['path']) in stop:
                    continue
                c = ctx.facts.bodies.get(fn['path']) or ctx.facts.bodies.get(fn.get('resolved') or '')
                if c is None or c.key in visited:
                    continue
                visited.add(c.key)
                work.append(c)
                if c.has_cycle() and nm == 'drain_into':
                    continue  # the drain loops may live in a helper or in the other flavour's drain_into; R9 pins their shape and bound
                if c.has_cycle() and not batch_loop_ok(ctx, c):
                    ctx.violate(b.key, None, 'non-blocking operation reaches %s, which contains a loop (unbounded number of steps)' % c.key, sig='callee-cycle:' + c.key)
        if nm.endswith('_realtime'):
            ctx.oblige(1)
            tc2 = transitive_callees(ctx.facts, b, stop={'internal::try_acquire_internal'})
            for f in sorted(FORBIDDEN_REALTIME & set(tc2)):
                ctx.violate(b.key, None, 'realtime operation can reach blocking lock acquisition %s via %s' % (f, ' -> '.join(tc2[f])), sig=f)
            if 'internal::try_acquire_internal' not in tc2:
                ctx.violate(b.key, None, 'realtime operation does not use try_acquire_internal', sig='no-trylock')
            ps = ctx.paths(b) or []
            for p in ps:
                if p.end != 'return':
                    continue
                evs = ctx.sem(p)
                lb = labels(evs)
                if has(lb, 'trylocked', 'None'):
                    ctx.oblige(1)
                    rk = fam.success_kind(fam.final_ret(p, evs))
                    shape = fam.final_ret(p, evs)
                    okret = rk in ('refused', 'none')
                    if not okret:
                        ctx.violate(b.key, p, 'failed try-lock must return Ok(false)/Ok(None), returns %s' % rk)
                    bad = [e for e in evs if e.name in ('RD', 'WR', 'NEXT_RECV', 'NEXT_SEND', 'PUSH_SEND', 'PUSH_RECV', 'SIGSEND', 'SIGRECV', 'LOCK') or e.name.startswith('Q.') or e.name.startswith('WL.')]
                    if bad:
                        ctx.violate(b.key, p, 'channel state touched (%s) although the try-lock failed' % bad[0].name, at=bad[0].at)
    if len(bodies) < exp:
        ctx.violate('<crate>', None, 'anchor missing: %d non-blocking entry points found, %d expected' % (len(bodies), exp), sig='floor')


STATE_EV = ('RD', 'WR', 'NEXT_RECV', 'NEXT_SEND', 'PUSH_SEND', 'PUSH_RECV', 'TERMINATE_SIGNALS')
AUX_ALLOWED = {
    'CANCEL_SEND': {'CANCEL_SEND', 'BR', 'DROP', 'WRMEM', 'RDMEM', 'RET', 'SLOT.assume_init_drop', 'CALL', 'BR?', 'MEMDROP', 'FUT.drop_local_data'},
    'CANCEL_RECV': {'CANCEL_RECV', 'BR', 'DROP', 'WRMEM', 'RDMEM', 'RET', 'CALL', 'BR?', 'MEMDROP'},
    'EXISTS_SEND': {'EXISTS_SEND', 'BR', 'SIG.register_waker', 'CALL', 'RDMEM', 'WRMEM', 'RET', 'BR?', 'DROP'},
    'EXISTS_RECV': {'EXISTS_RECV', 'BR', 'SIG.register_waker', 'CALL', 'RDMEM', 'WRMEM', 'RET', 'BR?', 'DROP'},
}


def is_state_event(e):
    return e.name in STATE_EV or e.name.startswith('Q.') or e.name.startswith('WL.')


def one_section_check(ctx, b, p, evs, side):
    """S10 / R10: the logical step happens in one critical section"""
    secs = {}
    for e in evs:
        if e.name in ('LOCK', 'TRYLOCK'):
            secs[e.data['sid']] = {'state': [], 'aux': [], 'lock': e}
            if e.data.get('nested'):
                ctx.violate(b.key, p, 'channel lock acquired while already held (self-deadlock on the spin lock)', at=e.at)
    for e in evs:
        if e.sec is None or e.sec not in secs:
            if is_state_event(e):
                ctx.violate(b.key, p, 'channel state event %s outside any critical section' % e.name, at=e.at)
            continue
        if is_state_event(e):
            secs[e.sec]['state'].append(e)
        elif e.name in AUX_ALLOWED:
            secs[e.sec]['aux'].append(e)
    state_secs = [sid for sid, s in secs.items() if s['state']]
    if len(state_secs) > 1:
        e2 = secs[state_secs[1]]['state'][0]
        ctx.violate(b.key, p, 'logical step split across %d critical sections (state re-read/updated after unlock/relock: %s)' % (len(state_secs), e2.name), at=e2.at)
    for sid, s in secs.items():
        if sid in state_secs:
            if s['aux']:
                # a state section may not also run cancel/exists helpers of the waiter protocol
                pass
            continue
        kinds = {a.name for a in s['aux']}
        if not kinds:
            # an empty section: lock taken for nothing - harmless
            continue
    # after the state section: no further channel state events (covered above), and events on
    # terminators must refer to owned waiters (S2 / R4)
    return len(secs)


@rule('S10', ['C03', 'C15'], 'send: one critical section per logical step')
def s10(ctx):
    for b, p, evs in send_paths(ctx):
        n = one_section_check(ctx, b, p, evs, 'send')
        ctx.oblige(1, sample='%s [%s]: %d section(s)' % (b.key, p.signature(), n))
        ctx.instance('%s path' % b.key)
        # SIGSEND must not run while... (allowed both inside and outside the lock)
        # auxiliary sections on the send side may only cancel / look up the own signal
        for e in evs:
            if e.name in ('CANCEL_RECV', 'EXISTS_RECV', 'PUSH_RECV', 'NEXT_SEND', 'SIGRECV'):
                ctx.violate(b.key, p, 'send-side body uses receive-side helper %s' % e.name, at=e.at)


def zero_arm(body, evs):
    """for poll bodies only paths through the Zero arm are channel operations (other arms: F rules)"""
    if fam.body_kind(body)[0] != 'future':
        return True
    return any(e.name == 'RD' and e.data['field'] == 'recv_count' and e.sec is not None for e in evs)
