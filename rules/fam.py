"""Entry-point families, discovered structurally (by what a body calls), anchored by name floors."""
from mir import canon
import mir
import sem

CI = 'internal::ChannelInternal::'
TERM = 'signal::SignalTerminator::'

HELPER_MODULE_PREFIXES = ('internal::', 'signal::', 'pointer::', 'mutex::', 'backoff::', '<mutex::')

SEND_NAMES = [
    'Sender::<T>::send', 'Sender::<T>::send_timeout', 'Sender::<T>::send_option_timeout',
    'Sender::<T>::try_send', 'Sender::<T>::try_send_option', 'Sender::<T>::try_send_realtime',
    'Sender::<T>::try_send_option_realtime',
]
SEND_NAMES_ASYNC = [
    'AsyncSender::<T>::try_send', 'AsyncSender::<T>::try_send_option', 'AsyncSender::<T>::try_send_realtime',
    'AsyncSender::<T>::try_send_option_realtime', "<future::SendFuture<'_, T> as futures_core::Future>::poll",
]
RECV_NAMES = [
    'Receiver::<T>::recv', 'Receiver::<T>::recv_timeout', 'Receiver::<T>::try_recv',
    'Receiver::<T>::try_recv_realtime', 'Receiver::<T>::drain_into',
]
RECV_NAMES_ASYNC = [
    'AsyncReceiver::<T>::try_recv', 'AsyncReceiver::<T>::try_recv_realtime', 'AsyncReceiver::<T>::drain_into',
    "<future::ReceiveFuture<'_, T> as futures_core::Future>::poll",
]
SEND_POLL = "<future::SendFuture<'_, T> as futures_core::Future>::poll"
RECV_POLL = "<future::ReceiveFuture<'_, T> as futures_core::Future>::poll"
SEND_FDROP = "<future::SendFuture<'_, T> as std::ops::Drop>::drop"
RECV_FDROP = "<future::ReceiveFuture<'_, T> as std::ops::Drop>::drop"
HANDLES = ('Sender', 'AsyncSender', 'Receiver', 'AsyncReceiver')


def is_helper_body(key):
    return key.startswith(HELPER_MODULE_PREFIXES)


def calls_any(body, names):
    cs = set(body.callee_names())
    return bool(cs & set(names))


def add_delegators(ctx, out, expected):
    """an expected entry point written as a wrapper of another entry point of the same family
    (`try_send(d)` = `try_send_option(&mut Some(d))`) belongs to the family too: its paths contain the callee, spliced"""
    keys = {b.key for b in out}
    changed = True
    while changed:
        changed = False
        for n in expected:
            if n in keys:
                continue
            b = ctx.facts.bodies.get(n)
            if b is None:
                continue
            for bb, t in b.all_calls():
                fn = t.get('fn')
                if fn and fn.get('local') and fn['path'] in keys and fn['path'] in expected:
                    out.append(b)
                    keys.add(n)
                    changed = True
                    break
    return out


def is_closure(b):
    return str(b.j.get('def_kind', '')) == 'Closure'


def spliced_bodies(ctx):
    """keys of every body that is spliced into some path of some non-closure body (cached)"""
    c = ctx.facts.__dict__.setdefault('_spliced', None)
    if c is not None:
        return c
    out = set()
    for key, b in ctx.facts.bodies.items():
        if is_closure(b):
            continue
        try:
            ps = ctx.paths(b) or []
        except Exception:
            ps = []
        for p in ps:
            for e in p.events:
                if e.kind == 'inline' and e.extra and e.extra.get('body'):
                    out.add(e.extra['body'])
                if e.kind == 'call' and e.name == 'std::iter::Extend::extend' and len(e.args) == 2:
                    cl = sem.lazy_sender_drain(p, e.args[1])
                    if cl is not None:
                        out.update(cl)  # accounted for by the WL.drain_senders event of the body that builds the pipeline
                    cq = sem.lazy_queue_drain(p, e.args[1])
                    if cq is not None:
                        out.add(cq)
    ctx.facts.__dict__['_spliced'] = out
    return out


def opaque_closures(ctx, trig):
    """closures that touch the channel (call one of `trig`, deep) but are never spliced into any analysed path - handed to
    code the analysis does not follow: whatever they do is invisible to the path rules, so they are reported"""
    sp = spliced_bodies(ctx)
    return [b for key, b in ctx.facts.bodies.items() if is_closure(b) and key not in sp and calls_any_deep(ctx, b, trig)]


def send_bodies(ctx):
    """bodies outside the helper modules that touch the send side of the channel state"""
    trig = {CI + 'next_recv', CI + 'push_send', TERM + 'send'}
    out = []
    for key, b in ctx.facts.bodies.items():
        if is_helper_body(key) or mir.private_helper(b):
            continue
        if is_closure(b) and key in spliced_bodies(ctx):
            continue  # analysed inside the paths of the body that calls it
        if calls_any_deep(ctx, b, trig):
            out.append(b)
    return add_delegators(ctx, out, expected_send(ctx))


def calls_any_deep(ctx, body, names, depth=0):
    """does the body, or a private helper it splices in, call one of `names`"""
    if calls_any(body, names):
        return True
    if depth >= mir.MAX_INLINE_DEPTH:
        return False
    for bb, t in body.all_calls():
        fn = t.get('fn')
        if fn and fn.get('local'):
            c = ctx.facts.bodies.get(fn['path'])
            if c is not None and c is not body and mir.private_helper(c) and calls_any_deep(ctx, c, names, depth + 1):
                return True
    for key in body.callable_refs():
        c = ctx.facts.bodies.get(key)
        if c is not None and c is not body and (mir.private_helper(c) or c.j.get('def_kind') == 'Closure') and calls_any_deep(ctx, c, names, depth + 1):
            return True
    return False


def recv_bodies(ctx):
    trig = {CI + 'next_send', CI + 'push_recv', TERM + 'recv'}
    out = []
    for key, b in ctx.facts.bodies.items():
        if is_helper_body(key) or mir.private_helper(b):
            continue
        if is_closure(b) and key in spliced_bodies(ctx):
            continue  # analysed inside the paths of the body that calls it
        if calls_any_deep(ctx, b, trig):
            out.append(b)
    return add_delegators(ctx, out, expected_recv(ctx))


def expected_send(ctx):
    return SEND_NAMES + (SEND_NAMES_ASYNC if ctx.has_async() else [])


def expected_recv(ctx):
    return RECV_NAMES + (RECV_NAMES_ASYNC if ctx.has_async() else [])


def check_family(ctx, found, expected, what):
    keys = {b.key for b in found}
    for n in expected:
        if n in keys:
            ctx.instance('%s body %s' % (what, n))
        else:
            ctx.violate(n, None, 'anchor missing: expected %s entry point not found or no longer touches the channel' % what,
                        sig='anchor')


def body_kind(body):
    """'value' | 'option' | 'future' | 'none' and the param index carrying the payload"""
    j = body.j
    if 'Future>::poll' in body.key or 'Future::poll' in body.key:
        return ('future', 1)
    for i in range(1, body.arg_count + 1):
        ty = body.locals[i]['ty']
        if ty == 'T':
            return ('value', i)
    for i in range(1, body.arg_count + 1):
        ty = body.locals[i]['ty']
        if ty.startswith('&mut std::option::Option<T>'):
            return ('option', i)
    return ('none', None)


def tokens(body, evs):
    """values that denote 'the payload' on this path"""
    kind, idx = body_kind(body)
    toks = []
    if kind == 'value':
        toks.append(('param', idx))
    elif kind == 'option':
        for e in evs:
            if e.name == 'OPT.unwrap':
                a = e.data['args'][0]
                if a[0] == 'call' and a[2] == 'std::option::Option::take' and a[3] and a[3][0] == ('param', idx):
                    toks.append(e.data['res'])
    elif kind == 'future':
        for e in evs:
            if e.name == 'FUT.read_local_data':
                toks.append(e.data['res'])
    return kind, idx, toks


def is_tok(v, toks):
    return any(v == t for t in toks)


UNSLOT = ('std::mem::ManuallyDrop::into_inner', 'std::mem::ManuallyDrop::take', 'std::mem::MaybeUninit::assume_init',
          'std::mem::MaybeUninit::assume_init_read', 'std::ptr::read')


def unslot(v, toks):
    """v == ManuallyDrop::into_inner(slot) / slot.assume_init() / slot.assume_init_read() / ptr::read(&slot) where slot wraps
    the token: the payload moved back out of its slot, by value"""
    if isinstance(v, tuple) and v and v[0] == 'call' and v[2] in UNSLOT and v[3]:
        a = v[3][-1]
        if slot_of(a, toks):
            return True
        ss = ref_snapshot(a)
        if ss is not None and slot_of(ss, toks):
            return True
    return False


def owns(v, toks, depth=0):
    """v is the token or a by-value aggregate that holds it"""
    if is_tok(v, toks) or unslot(v, toks):
        return True
    if depth < 4 and isinstance(v, tuple) and v and v[0] == 'agg':
        return any(owns(f, toks, depth + 1) for f in v[3])
    return False


def slot_of(v, toks):
    """v == MaybeUninit::new(tok) / ManuallyDrop::new(tok)"""
    if v is None:
        return False
    if v[0] == 'call' and v[2] in ('std::mem::MaybeUninit::new', 'std::mem::ManuallyDrop::new') and v[3]:
        return is_tok(v[3][-1], toks)
    return False


def ref_snapshot(v):
    if v is not None and v[0] in ('ref', 'rawptr') and len(v) > 2:
        return v[2]
    return None


def success_kind(shape):
    """classify a return shape: 'ok' | 'refused' | 'err:<Variant>' | 'pending' | 'value' | '?'"""
    if shape[0] == 'Ready':
        return success_kind(shape[1]) if shape[1] else '?'
    if shape[0] == 'Pending':
        return 'pending'
    if shape[0] == 'Ok':
        inner = shape[1]
        if inner is None or sem.is_unit(inner):
            return 'ok'
        if sem.is_true(inner):
            return 'ok'
        if sem.is_false(inner):
            return 'refused'
        if inner[0] == 'agg' and inner[1].endswith('Option') and inner[2] == 'None':
            return 'none'
        return 'value'
    if shape[0] == 'Err':
        return 'err:%s' % (shape[1] if isinstance(shape[1], str) else '?')
    return '?'


def final_ret(path, evs):
    for e in reversed(evs):
        if e.name == 'RET':
            return sem.ret_shape(e.data['val'])
    return None


def first(evs, name):
    for e in evs:
        if e.name == name:
            return e
    return None


def all_named(evs, *names):
    return [e for e in evs if e.name in names]


# ---------------------------------------------------------------------------------------------------------------
# attribution of who-may-write / inventory findings: a private helper (or closure) acts on behalf of its callers
# ---------------------------------------------------------------------------------------------------------------

def _callers(facts):
    c = getattr(facts, '_callers', None)
    if c is not None:
        return c
    c = {}
    for key, b in facts.bodies.items():
        for bb, t in b.all_calls():
            fn = t.get('fn')
            if fn and fn.get('local'):
                for cand in (fn['path'], fn.get('resolved')):
                    if cand and cand in facts.bodies:
                        c.setdefault(cand, set()).add(key)
        for blk in b.blocks:
            for s in blk['stmts']:
                if s['k'] == 'assign' and s['rv']['k'] == 'agg' and s['rv'].get('ak') == 'closure' and s['rv'].get('name') in facts.bodies:
                    c.setdefault(s['rv']['name'], set()).add(key)
    facts._callers = c
    return c


def is_delegate(facts, key):
    """a body that only exists as part of its callers: closures and private spliceable helpers"""
    b = facts.bodies.get(key)
    if b is None:
        return False
    if b.j.get('def_kind') == 'Closure':
        return True
    return mir.private_helper(b)


def owners(ctx, key):
    """the API / atomic bodies on whose behalf `key` runs ({key} itself unless it is a delegate); empty = dead code"""
    facts = ctx.facts
    if not is_delegate(facts, key):
        return {key}
    callers = _callers(facts)
    roots = set()
    seen = {key}
    work = [key]
    while work:
        k = work.pop()
        for c in callers.get(k, ()):
            if c in seen:
                continue
            seen.add(c)
            if is_delegate(facts, c):
                work.append(c)
            else:
                roots.add(c)
    return roots


def allowed_for(ctx, key, allowed):
    """True if every owner of `key` is in `allowed` (dead code counts as allowed)"""
    os_ = owners(ctx, key)
    return all(o in allowed for o in os_)
