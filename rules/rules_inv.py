"""I rules: the state invariants I1-I4 (+ release-on-disconnect I6) are INDUCTIVE over every critical section.

Finite-domain abstract interpretation of the projected event sequences: the abstract channel state is
(capacity, queue length, wait list as a short list of 'S'/'R' entries, recv_blocking, send_count, recv_count) with small
bounds.  For every body that takes the channel lock, every path (k = 2) and every critical section of it, the events of
the section are applied as state transformers to EVERY small abstract state that satisfies the invariants; branch labels
recorded on the path decide feasibility (a path whose recorded outcome contradicts the state is not a behaviour of that
state).  After the section's unlock the invariants must hold again.  Because the lock serialises critical sections
(C17, S10/R10, W1), induction over sections gives the invariants at every unlock point of every execution - this is the
machine-checked part of the composition argument of DESIGN.md 1.3.  Nothing of kanal is executed: the transformers are the
helper summaries H2-H6 (checked separately against the helper bodies) and VecDeque's push/pop/clear semantics (trusted)."""
import itertools

from engine import rule
import fam
import sem
from mir import is_const
from rules_life import wr_delta

INF = 10 ** 6


class St:
    __slots__ = ('cap', 'q', 'wl', 'rb', 'sc', 'rc')

    def __init__(self, cap, q, wl, rb, sc, rc):
        self.cap, self.q, self.wl, self.rb, self.sc, self.rc = cap, q, list(wl), rb, sc, rc

    def copy(self):
        return St(self.cap, self.q, self.wl, self.rb, self.sc, self.rc)

    def key(self):
        return (self.cap if self.cap != INF else 'inf', self.q, ''.join(self.wl), self.rb, self.sc, self.rc)


def inv_violations(s):
    out = []
    kinds = set(s.wl)
    if len(kinds) > 1:
        out.append('I1: wait list mixes senders and receivers')
    if s.wl and len(kinds) == 1:
        k = s.wl[0]
        if s.rb != (k == 'R'):
            out.append('I1: wait list holds %s but recv_blocking=%s' % ('receivers' if k == 'R' else 'senders', s.rb))
    if 'S' in s.wl and s.q != s.cap:
        out.append('I2: senders wait although the buffer is not full (len %s, capacity %s)' % (s.q, 'unbounded' if s.cap == INF else s.cap))
    if s.q > s.cap:
        out.append('I3: buffer holds %d values, capacity %d' % (s.q, s.cap))
    if 'R' in s.wl and s.q != 0:
        out.append('I4: receivers wait although the buffer holds %d values' % s.q)
    if s.rc == 0 and 'S' in s.wl:
        out.append('I6: no receiver handle left but senders are still blocked')
    if s.sc == 0 and 'R' in s.wl:
        out.append('I6: no sender handle left but receivers are still blocked')
    if s.sc == 0 and s.rc == 0 and s.q != 0 and False:
        out.append('closed channel still buffers values')
    return out


def small_states(thorough):
    caps = [0, 1, 2, INF]
    counts = [0, 1, 2]
    out = []
    for cap in caps:
        qs = range(0, (2 if cap == INF else min(cap, 2)) + 1)
        for q in qs:
            for wl in ([], ['S'], ['S', 'S'], ['R'], ['R', 'R']):
                for rb in (False, True):
                    for sc in counts:
                        for rc in counts:
                            s = St(cap, q, wl, rb, sc, rc)
                            if inv_violations(s):
                                continue
                            # environment facts: a blocked operation borrows a live handle of its side
                            if 'S' in wl and sc == 0:
                                continue
                            if 'R' in wl and rc == 0:
                                continue
                            out.append(s)
    return out


class Infeasible(Exception):
    pass


def apply_section(evs, s, handle_side):
    """apply the events (a list of SEv between LOCK and the next LOCK) to state s (mutated); raises Infeasible"""
    pend = {}
    for e in evs:
        n = e.name
        if n == 'NEXT_RECV':
            if not s.rb:
                pend['next_recv'] = 'None'
            elif s.wl:
                s.wl.pop(0)
                pend['next_recv'] = 'Some'
            else:
                s.rb = False
                pend['next_recv'] = 'None'
        elif n == 'NEXT_SEND':
            if s.rb:
                pend['next_send'] = 'None'
            elif s.wl:
                s.wl.pop(0)
                pend['next_send'] = 'Some'
            else:
                s.rb = True
                pend['next_send'] = 'None'
        elif n == 'PUSH_SEND':
            s.wl.append('S')
        elif n == 'PUSH_RECV':
            s.wl.append('R')
        elif n == 'Q.push_back':
            s.q += 1
        elif n == 'Q.push_front':
            s.q += 1
        elif n in ('Q.pop_front', 'Q.pop_back'):
            if s.q > 0:
                s.q -= 1
                pend['pop'] = 'Some'
            else:
                pend['pop'] = 'None'
        elif n == 'Q.clear':
            s.q = 0
        elif n == 'Q.drain_all':
            s.q = 0  # every buffered value moved out, in order
        elif n == 'WL.drain_senders':
            if not s.rb:
                s.wl = []   # all blocked senders received, in order; the final next_send() on the empty list is the event that follows
        elif n == 'Q.exhausted':
            # the counted drain loop ran queue.len() times: only the executions in which the buffer is now empty exist
            if s.q != 0:
                raise Infeasible()
            pend['pop'] = 'None'
        elif n == 'TERMINATE_SIGNALS':
            s.wl = []
        elif n in ('CANCEL_SEND', 'CANCEL_RECV'):
            pend['cancel'] = ('S' if n == 'CANCEL_SEND' else 'R')
        elif n in ('EXISTS_SEND', 'EXISTS_RECV'):
            pend['exists'] = ('S' if n == 'EXISTS_SEND' else 'R')
        elif n == 'WR':
            f = e.data['field']
            if f in ('send_count', 'recv_count'):
                d = wr_delta(e, f)
                cur = s.sc if f == 'send_count' else s.rc
                if d is not None:
                    new = cur + d
                elif is_const(e.data['val'], 0):
                    new = 0
                else:
                    raise Infeasible()  # unknown write: L rules report it
                if new < 0:
                    new = 0
                if f == 'send_count':
                    s.sc = new
                else:
                    s.rc = new
        elif n == 'BR':
            lab, out = e.data['label'], e.data['outcome']
            if lab in ('next_recv', 'next_send', 'pop'):
                if lab in pend and pend[lab] != out:
                    raise Infeasible()
            elif lab == 'rc0':
                if (s.rc == 0) != (out == 'T'):
                    raise Infeasible()
            elif lab == 'sc0':
                if (s.sc == 0) != (out == 'T'):
                    raise Infeasible()
            elif lab == 'room':
                if (s.q < s.cap) != (out == 'T'):
                    raise Infeasible()
            elif lab == 'full_eq':
                if (s.q == s.cap) != (out == 'T'):
                    raise Infeasible()
            elif lab == 'qempty':
                if (s.q == 0) != (out == 'T'):
                    raise Infeasible()
            elif lab == 'recv_blocking':
                if s.rb != (out == 'T'):
                    raise Infeasible()
            elif lab == 'cap_max':
                if (s.cap == INF) != (out == 'T'):
                    raise Infeasible()
            elif lab == 'cap0':
                if (s.cap == 0) != (out == 'T'):
                    raise Infeasible()
            elif lab == 'cancel':
                kind = pend.get('cancel')
                if kind is None:
                    continue
                ok_kind = (kind == 'R') == s.rb
                if out == 'T':
                    if not ok_kind or kind not in s.wl:
                        raise Infeasible()
                    s.wl.remove(kind)
                # cancel:F is always feasible (own entry already taken)
            elif lab == 'exists':
                kind = pend.get('exists')
                if kind is not None and out == 'T':
                    if ((kind == 'R') != s.rb) or kind not in s.wl:
                        raise Infeasible()
    return s


def split_sections(evs):
    """[(lock event, [events up to the next LOCK or end])]"""
    out = []
    cur = None
    for e in evs:
        if e.name in ('LOCK', 'TRYLOCK'):
            if cur is not None:
                out.append(cur)
            cur = (e, [])
        elif cur is not None:
            cur[1].append(e)
    if cur is not None:
        out.append(cur)
    return out


def own_side(body):
    k = body.key
    for h, side in (('AsyncSender', 'S'), ('AsyncReceiver', 'R'), ('Sender', 'S'), ('Receiver', 'R'), ('SendFuture', 'S'), ('ReceiveFuture', 'R')):
        if h in k:
            return side
    return None


def _i0(ctx, group):
    states = small_states(ctx.k >= 2)
    nsec = 0
    nfeasible = 0
    per_body_feasible = {}
    mutating_bodies = set()
    reported = set()
    for key, b in ctx.facts.bodies.items():
        if fam.is_helper_body(key):
            continue
        names = set(b.callee_names())
        if not ({'internal::acquire_internal', 'internal::try_acquire_internal'} & names):
            continue
        ps = b.paths(max(ctx.k, 2))
        ctx.bodies_visited.add(key)
        if ps is None:
            ctx.violate(key, None, 'cannot analyse: path explosion', sig='paths')
            continue
        ctx.instance(key)
        side = own_side(b)
        for p in ps:
            if p.end not in ('return',):
                continue
            evs = ctx.sem(p)
            ctx.paths_visited += 1
            for lock, sec in split_sections(evs):
                if not any(e.name in ('NEXT_RECV', 'NEXT_SEND', 'PUSH_SEND', 'PUSH_RECV', 'TERMINATE_SIGNALS', 'CANCEL_SEND', 'CANCEL_RECV', 'WR') or e.name.startswith('Q.p') or e.name == 'Q.clear' for e in sec):
                    continue  # read-only section
                nsec += 1
                mutating_bodies.add(key)
                for s0 in states:
                    # environment: the calling handle itself is alive
                    if side == 'S' and s0.sc == 0 and 'Drop' not in key and False:
                        continue
                    s = s0.copy()
                    try:
                        apply_section(sec, s, side)
                    except Infeasible:
                        continue
                    nfeasible += 1
                    per_body_feasible[key] = per_body_feasible.get(key, 0) + 1
                    bad = [x for x in inv_violations(s) if (x.startswith('I6')) == (group == 'I6')]
                    if bad:
                        rk = (key, bad[0].split(':')[0], p.signature())
                        if rk in reported:
                            continue
                        reported.add(rk)
                        ctx.violate(key, p, 'critical section does not preserve the channel invariants: from state %s it reaches %s - %s' % (
                            s0.key(), s.key(), '; '.join(bad)), at=lock.at, sig=p.signature() + ':' + bad[0].split(':')[0])
    ctx.oblige(nfeasible, sample='%d mutating critical sections x %d abstract states: %d feasible (state, section) pairs all preserve I1-I4, I6' % (nsec, len(states), nfeasible))
    ctx.extra_evidence = {'abstract_states': len(states), 'sections': nsec, 'feasible_pairs': nfeasible}
    # non-vacuity: every body must have feasible pairs
    for key in sorted(mutating_bodies):
        if per_body_feasible.get(key, 0) == 0:
            ctx.violate(key, None, 'no abstract state makes any mutating critical section of this body feasible: the invariant check would be vacuous for it', sig='vacuous-body')
    if nfeasible == 0:
        ctx.violate('<crate>', None, 'anchor missing: no feasible (state, section) pair was found', sig='vacuous')


@rule('I0', ['C02', 'C03', 'C08', 'C18', 'C01'], 'the channel-state invariants I1-I4 (kind flag, full-while-senders-wait, len<=capacity, empty-while-receivers-wait) are inductive over every critical section of every body (finite abstract domain)')
def i0(ctx):
    _i0(ctx, 'I1-4')


@rule('I6', ['C06', 'C10', 'C11'], 'release on disconnect is inductive: after every critical section, a side without handles has no blocked peer left in the wait list (finite abstract domain)')
def i6(ctx):
    _i0(ctx, 'I6')


# ------------------------------------------------------------------------------------------------------------------
# I1: single-step conformance with the reference channel (queue + waiting list), over the same finite abstract domain
# ------------------------------------------------------------------------------------------------------------------

def spec_send(s, blocking):
    """reference transition of a send-like call: returns (result kind, post-state)"""
    t = s.copy()
    if s.rc == 0:
        return ('err:Closed' if s.sc == 0 else 'err:ReceiveClosed'), t
    if 'R' in s.wl:
        t.wl.pop(0)
        return 'ok', t
    if s.q < s.cap:
        t.q += 1
        return 'ok', t
    if blocking:
        t.wl.append('S')
        return 'registered', t
    return 'refused', t


def spec_recv(s, blocking):
    t = s.copy()
    if s.rc == 0:
        return 'err:Closed', t
    if s.q > 0:
        t.q -= 1
        if 'S' in t.wl:
            t.wl.pop(0)
            t.q += 1
        return 'value', t
    if 'S' in s.wl:
        t.wl.pop(0)
        return 'value', t
    if s.sc == 0:
        return 'err:SendClosed', t
    if blocking:
        t.wl.append('R')
        return 'registered', t
    return 'none', t


def spec_drain(s):
    t = s.copy()
    if s.rc == 0:
        return 'err:Closed', t
    n = s.q + len([x for x in s.wl if x == 'S'])
    t.q = 0
    t.wl = [x for x in s.wl if x != 'S']
    return 'count:%d' % n, t


def spec_close(s):
    t = s.copy()
    if s.sc == 0 and s.rc == 0:
        return 'err:CloseError', t
    t.sc = t.rc = 0
    t.wl = []
    t.q = 0
    return 'ok', t


def spec_drop(s, side):
    t = s.copy()
    if side == 'S':
        if t.sc > 0:
            t.sc -= 1
            if t.sc == 0 and t.rc != 0:
                t.wl = []
    else:
        if t.rc > 0:
            t.rc -= 1
            if t.rc == 0 and t.sc != 0:
                t.wl = []
    return 'unit', t


def spec_clone(s, side):
    t = s.copy()
    if side == 'S':
        if t.sc > 0:
            t.sc += 1
    else:
        if t.rc > 0:
            t.rc += 1
    return 'handle', t


def model_key(s):
    return (s.q, ''.join(s.wl), s.sc, s.rc)


def op_of(body):
    """(op, arg) for a body key, or None"""
    k = body.key
    nm = body.j.get('name', '')
    h = None
    for hh in ('AsyncSender', 'AsyncReceiver', 'Sender', 'Receiver'):
        if k.startswith(hh + '::<T>::') or k.startswith('<' + hh + '<T> as '):
            h = hh
            break
    if k == fam.SEND_POLL:
        return ('send', True, 'poll')
    if k == fam.RECV_POLL:
        return ('recv', True, 'poll')
    if h is None:
        return None
    if body.j.get('vis') not in (None, 'Public') and not body.j.get('impl_trait'):
        return None  # a private helper of a handle (`try_recv_locked(guard)`): seen through the public operations that call it
    side = 'S' if 'Sender' in h else 'R'
    if k.endswith('as std::ops::Drop>::drop'):
        return ('drop', side, None)
    if k.endswith('as std::clone::Clone>::clone') or nm in ('clone_sync', 'clone_async'):
        return ('clone', side, None)
    if nm == 'close':
        return ('close', None, None)
    if nm == 'drain_into':
        return ('drain', None, None)
    if side == 'S' and nm in ('send', 'send_timeout', 'send_option_timeout') and h == 'Sender':
        return ('send', True, nm)
    if side == 'S' and nm in ('try_send', 'try_send_option', 'try_send_realtime', 'try_send_option_realtime'):
        return ('send', False, nm)
    if side == 'R' and nm in ('recv', 'recv_timeout') and h == 'Receiver':
        return ('recv', True, nm)
    if side == 'R' and nm in ('try_recv', 'try_recv_realtime'):
        return ('recv', False, nm)
    return None


def path_kind(ctx, body, p, evs, op):
    """result kind of an implementation path, in the vocabulary of the spec"""
    shape = fam.final_ret(p, evs)
    rk = fam.success_kind(shape) if shape else '?'
    if op[0] == 'send':
        if any(e.name == 'PUSH_SEND' for e in evs):
            return 'registered'
        return rk
    if op[0] == 'recv':
        if any(e.name == 'PUSH_RECV' for e in evs):
            return 'registered'
        return rk
    if op[0] == 'drain':
        if rk.startswith('err'):
            return rk
        return 'count'  # refined with the evaluated number by the caller
    if op[0] == 'close':
        return rk
    if op[0] == 'drop':
        return 'unit'
    if op[0] == 'clone':
        return 'handle'
    return rk


def eval_count(v, s0, vec_before=0):
    """evaluate a returned count expression on the pre-state s0 (lengths are read before draining)"""
    from mir import ci_field_ref
    if v is None:
        return None
    if v[0] == 'const':
        try:
            return int(v[2])
        except ValueError:
            return None
    if v[0] == 'bin' and v[1] in ('Add', 'Sub'):
        a = eval_count(v[2], s0)
        b = eval_count(v[3], s0)
        if a is None or b is None:
            return None
        return a + b if v[1] == 'Add' else a - b
    if v[0] == 'call' and v[2] in ('core::num::saturating_add', 'core::num::wrapping_add', 'core::num::saturating_sub') and len(v[3]) == 2:
        a = eval_count(v[3][0], s0)
        b = eval_count(v[3][1], s0)
        if a is None or b is None:
            return None
        return a + b if v[2].endswith('_add') else max(a - b, 0)   # small abstract numbers: nothing saturates upwards
    if v[0] == 'call' and v[2] == 'std::collections::VecDeque::len' and v[3]:
        f = ci_field_ref(v[3][0])
        if f == 'queue':
            return s0.q
        if f == 'wait_list':
            return len(s0.wl)
    return None


I1_TITLE = 'single-step conformance with the reference channel (%s): from every small abstract state each entry point has a feasible path, and every feasible path returns the kind of result and reaches the state the reference model prescribes'


def _i1(ctx, kinds):
    states = small_states(True)
    npairs = 0
    ops_checked = 0
    for key, b in ctx.facts.bodies.items():
        op = op_of(b)
        if op is None or op[0] not in kinds:
            continue
        ps = b.paths(max(ctx.k, 2))
        ctx.bodies_visited.add(key)
        if ps is None:
            ctx.violate(key, None, 'cannot analyse: path explosion', sig='paths')
            continue
        ctx.instance(key)
        ops_checked += 1
        cand = []
        for p in ps:
            if p.end != 'return':
                continue
            evs = ctx.sem(p)
            if op[2] == 'poll':
                # only the arm that performs the operation (Zero, or the stream re-arm)
                if not any(e.name == 'RD' and e.data['field'] == 'recv_count' and e.sec is not None for e in evs):
                    continue
            secs = split_sections(evs)
            cand.append((p, evs, secs))
            ctx.paths_visited += 1
        reported = set()
        deep = {}
        for s0 in states:
            if op[0] == 'send':
                want, post = spec_send(s0, op[1])
            elif op[0] == 'recv':
                want, post = spec_recv(s0, op[1])
            elif op[0] == 'drain':
                want, post = spec_drain(s0)
            elif op[0] == 'close':
                want, post = spec_close(s0)
            elif op[0] == 'drop':
                # the handle being dropped is alive: on an open channel its side's count is >= 1
                want, post = spec_drop(s0, op[1])
            elif op[0] == 'clone':
                want, post = spec_clone(s0, op[1])
            else:
                continue
            matched = 0
            todo = list(cand)
            if op[0] == 'drain' and want.startswith('count:'):
                # a drain written as ONE loop (`loop { match internal.take() {..} }`) needs one iteration per value taken, where the
                # two-loop spelling needs at most max(buffered, blocked): unroll as far as this state requires
                need = s0.q + len(s0.wl) + 1
                if need > max(ctx.k, 2):
                    if need not in deep:
                        deep[need] = []
                        for p2 in (b.paths(need) or []):
                            if p2.end == 'return':
                                e2 = ctx.sem(p2)
                                deep[need].append((p2, e2, split_sections(e2)))
                    todo = deep[need] or todo
            for p, evs, secs in todo:
                lb = sem.labels(evs)
                s = s0.copy()
                try:
                    if secs:
                        # prefix before the first lock carries no channel state; apply the first (state) section
                        apply_section(secs[0][1] if len(secs) == 1 else secs[0][1], s, None)
                    else:
                        # no lock taken at all (failed try-lock): only external nondeterminism
                        pass
                except Infeasible:
                    continue
                # external nondeterminism that the single-threaded reference does not have
                if sem.has(lb, 'trylocked', 'None'):
                    continue
                if (sem.has(lb, 'late', 'T') or sem.has(lb, 'late_ge', 'T') or sem.has(lb, 'before_deadline', 'F') or sem.has(lb, 'before_deadline_le', 'F')) \
                        and op[0] == 'recv' and want in ('registered', 'err:SendClosed'):
                    continue  # a timed receive with nothing available may report Timeout instead of waiting
                npairs += 1
                kind = path_kind(ctx, b, p, evs, op)
                wkind = want
                if op[0] == 'drain' and kind == 'count':
                    shape = fam.final_ret(p, evs)
                    n = eval_count(shape[1] if shape and shape[0] == 'Ok' else None, s0)
                    kind = 'count:%s' % ('?' if n is None else n)
                ok_kind = (kind == wkind)
                ok_state = model_key(s) == model_key(post)
                if ok_kind and ok_state:
                    matched += 1
                    continue
                rk = (key, s0.key(), kind)
                sig = '%s:%s->%s' % (p.signature(), wkind, kind)
                if sig in reported:
                    continue
                reported.add(sig)
                ctx.violate(key, p, 'reference channel disagrees: from state %s the reference %s and reaches %s; this path %s and reaches %s' % (
                    s0.key(), wkind, model_key(post), kind, model_key(s)), sig=sig)
            if matched == 0 and not any(('nomatch', want) == r for r in reported):
                # no feasible path realises the reference behaviour from this state
                if cand:
                    reported.add(('nomatch', want))
                    ctx.violate(key, None, 'no path of %s realises the reference behaviour (%s) from state %s' % (key, want, s0.key()), sig='nomatch:' + want)
    ctx.oblige(npairs, sample='%d entry points x %d abstract states: %d feasible (state, path) pairs agree with the reference channel in result kind and post-state' % (ops_checked, len(states), npairs))
    ctx.extra_evidence = {'abstract_states': len(states), 'entry_points': ops_checked, 'feasible_pairs': npairs}


@rule('I1s', ['C18', 'C03', 'C08', 'C10', 'C11', 'C14', 'C02', 'C09', 'C01'], I1_TITLE % 'send, send_timeout, send_option_timeout, try_send*, SendFuture::poll')
def i1s(ctx):
    _i1(ctx, ('send',))


@rule('I1r', ['C18', 'C03', 'C08', 'C10', 'C11', 'C14', 'C02', 'C09', 'C01'], I1_TITLE % 'recv, recv_timeout, try_recv*, ReceiveFuture::poll')
def i1r(ctx):
    _i1(ctx, ('recv',))


@rule('I1d', ['C19', 'C18', 'C03', 'C14', 'C02', 'C01'], I1_TITLE % 'drain_into')
def i1d(ctx):
    _i1(ctx, ('drain',))


@rule('I1c', ['C10', 'C18', 'C03', 'C12', 'C05'], I1_TITLE % 'close')
def i1c(ctx):
    _i1(ctx, ('close',))


@rule('I1h', ['C12', 'C11', 'C10', 'C06', 'C18', 'C03', 'C09'], I1_TITLE % 'Drop and the Clone family of the four handles')
def i1h(ctx):
    _i1(ctx, ('drop', 'clone'))
