"""I rules: the state invariants I1-I4 (+ release-on-disconnect I6) are INDUCTIVE over every critical section.

Finite-domain abstract interpretation of the projected event sequences: the abstract channel state is
(capacity, queue length, wait list as a short list of 'S'/'R' entries, recv_blocking, send_count, recv_count) with small
bounds.  For every body that takes the channel lock, every path (k = 2) and every critical section of it, the events of
the section are applied as state transformers to EVERY small abstract state that satisfies the invariants; branch labels
recorded on the path decide feasibility (a path whose recorded outcome contradicts the state is not a behaviour of that
state).  After the section's unlock the invariants must hold again.  Because the lock serialises critical sections
(C17, S10/R10, W1), induction over sections gives the invariants at every unlock point of every execution - this is the
machine-checked part of the composition argument of DESIGN.md 1.3.  Nothing of kanal is executed: the transformers are the
helper summaries H2-H6 (checked separately against the helper bodies) and VecDeque's push/pop/clear semantics (trusted)."""
import itertools

from engine import rule
import fam
import sem
from mir import is_const
from rules_life import wr_delta

INF = 10 ** 6


class St:
    __slots__ = ('cap', 'q', 'wl', 'rb', 'sc', 'rc')

    def __init__(self, cap, q, wl, rb, sc, rc):
        self.cap, self.q, self.wl, self.rb, self.sc, self.rc = cap, q, list(wl), rb, sc, rc

    def copy(self):
        return St(self.cap, self.q, self.wl, self.rb, self.sc, self.rc)

    def key(self):
        return (self.cap if self.cap != INF else 'inf', self.q, ''.join(self.wl), self.rb, self.sc, self.rc)


def inv_violations(s):
    out = []
    kinds = set(s.wl)
    if len(kinds) > 1:
        out.append('I1: wait list mixes senders and receivers')
    if s.wl and len(kinds) == 1:
        k = s.wl[0]
        if s.rb != (k == 'R'):
            out.append('I1: wait list holds %s but recv_blocking=%s' % ('receivers' if k == 'R' else 'senders', s.rb))
    if 'S' in s.wl and s.q != s.cap:
        out.append('I2: senders wait although the buffer is not full (len %s, capacity %s)' % (s.q, 'unbounded' if s.cap == INF else s.cap))
    if s.q > s.cap:
        out.append('I3: buffer holds %d values, capacity %d' % (s.q, s.cap))
    if 'R' in s.wl and s.q != 0:
        out.append('I4: receivers wait although the buffer holds %d values' % s.q)
    if s.rc == 0 and 'S' in s.wl:
        out.append('I6: no receiver handle left but senders are still blocked')
    if s.sc == 0 and 'R' in s.wl:
        out.append('I6: no sender handle left but receivers are still blocked')
    if s.sc == 0 and s.rc == 0 and s.q != 0 and False:
        out.append('closed channel still buffers values')
    return out


def small_states(thorough):
    caps = [0, 1, 2, INF]
    counts = [0, 1, 2]
    out = []
    for cap in caps:
        qs = range(0, (2 if cap == INF else min(cap, 2)) + 1)
        for q in qs:
            for wl in ([], ['S'], ['S', 'S'], ['R'], ['R', 'R']):
                for rb in (False, True):
                    for sc in counts:
                        for rc in counts:
                            s = St(cap, q, wl, rb, sc, rc)
                            if inv_violations(s):
                                continue
                            # environment facts: a blocked operation borrows a live handle of its side
                            if 'S' in wl and sc == 0:
                                continue
                            if 'R' in wl and rc == 0:
                                continue
                            out.append(s)
    return out


class Infeasible(Exception):
    pass


def apply_section(evs, s, handle_side):
    """apply the events (a list of SEv between LOCK and the next LOCK) to state s (mutated); raises Infeasible"""
    pend = {}
    for e in evs:
        n = e.name
        if n == 'NEXT_RECV':
            if not s.rb:
                pend['next_recv'] = 'None'
            elif s.wl:
                s.wl.pop(0)
                pend['next_recv'] = 'Some'
            else:
                s.rb = False
                pend['next_recv'] = 'None'
        elif n == 'NEXT_SEND':
            if s.rb:
                pend['next_send'] = 'None'
            elif s.wl:
                s.wl.pop(0)
                pend['next_send'] = 'Some'
            else:
                s.rb = True
                pend['next_send'] = 'None'
        elif n == 'PUSH_SEND':
            s.wl.append('S')
        elif n == 'PUSH_RECV':
            s.wl.append('R')
        elif n == 'Q.push_back':
            s.q += 1
        elif n == 'Q.push_front':
            s.q += 1
        elif n in ('Q.pop_front', 'Q.pop_back'):
            if s.q > 0:
                s.q -= 1
                pend['pop'] = 'Some'
            else:
                pend['pop'] = 'None'
        elif n == 'Q.clear':
            s.q = 0
        elif n == 'TERMINATE_SIGNALS':
            s.wl = []
        elif n in ('CANCEL_SEND', 'CANCEL_RECV'):
            pend['cancel'] = ('S' if n == 'CANCEL_SEND' else 'R')
        elif n in ('EXISTS_SEND', 'EXISTS_RECV'):
            pend['exists'] = ('S' if n == 'EXISTS_SEND' else 'R')
        elif n == 'WR':
            f = e.data['field']
            if f in ('send_count', 'recv_count'):
                d = wr_delta(e, f)
                cur = s.sc if f == 'send_count' else s.rc
                if d is not None:
                    new = cur + d
                elif is_const(e.data['val'], 0):
                    new = 0
                else:
                    raise Infeasible()  # unknown write: L rules report it
                if new < 0:
                    new = 0
                if f == 'send_count':
                    s.sc = new
                else:
                    s.rc = new
        elif n == 'BR':
            lab, out = e.data['label'], e.data['outcome']
            if lab in ('next_recv', 'next_send', 'pop'):
                if lab in pend and pend[lab] != out:
                    raise Infeasible()
            elif lab == 'rc0':
                if (s.rc == 0) != (out == 'T'):
                    raise Infeasible()
            elif lab == 'sc0':
                if (s.sc == 0) != (out == 'T'):
                    raise Infeasible()
            elif lab == 'room':
                if (s.q < s.cap) != (out == 'T'):
                    raise Infeasible()
            elif lab == 'full_eq':
                if (s.q == s.cap) != (out == 'T'):
                    raise Infeasible()
            elif lab == 'qempty':
                if (s.q == 0) != (out == 'T'):
                    raise Infeasible()
            elif lab == 'recv_blocking':
                if s.rb != (out == 'T'):
                    raise Infeasible()
            elif lab == 'cap_max':
                if (s.cap == INF) != (out == 'T'):
                    raise Infeasible()
            elif lab == 'cancel':
                kind = pend.get('cancel')
                if kind is None:
                    continue
                ok_kind = (kind == 'R') == s.rb
                if out == 'T':
                    if not ok_kind or kind not in s.wl:
                        raise Infeasible()
                    s.wl.remove(kind)
                # cancel:F is always feasible (own entry already taken)
            elif lab == 'exists':
                kind = pend.get('exists')
                if kind is not None and out == 'T':
                    if ((kind == 'R') != s.rb) or kind not in s.wl:
                        raise Infeasible()
    return s


def split_sections(evs):
    """[(lock event, [events up to the next LOCK or end])]"""
    out = []
    cur = None
    for e in evs:
        if e.name in ('LOCK', 'TRYLOCK'):
            if cur is not None:
                out.append(cur)
            cur = (e, [])
        elif cur is not None:
            cur[1].append(e)
    if cur is not None:
        out.append(cur)
    return out


def own_side(body):
    k = body.key
    for h, side in (('AsyncSender', 'S'), ('AsyncReceiver', 'R'), ('Sender', 'S'), ('Receiver', 'R'), ('SendFuture', 'S'), ('ReceiveFuture', 'R')):
        if h in k:
            return side
    return None


@rule('I0', ['C02', 'C03', 'C06', 'C08', 'C10', 'C11', 'C18', 'C01'], 'the channel-state invariants I1-I4 and release-on-disconnect are inductive over every critical section of every body (finite abstract domain)')
def i0(ctx):
    states = small_states(ctx.k >= 2)
    nsec = 0
    nfeasible = 0
    per_body_feasible = {}
    mutating_bodies = set()
    reported = set()
    for key, b in ctx.facts.bodies.items():
        if fam.is_helper_body(key):
            continue
        names = set(b.callee_names())
        if not ({'internal::acquire_internal', 'internal::try_acquire_internal'} & names):
            continue
        ps = b.paths(max(ctx.k, 2))
        ctx.bodies_visited.add(key)
        if ps is None:
            ctx.violate(key, None, 'cannot analyse: path explosion', sig='paths')
            continue
        ctx.instance(key)
        side = own_side(b)
        for p in ps:
            if p.end not in ('return',):
                continue
            evs = ctx.sem(p)
            ctx.paths_visited += 1
            for lock, sec in split_sections(evs):
                if not any(e.name in ('NEXT_RECV', 'NEXT_SEND', 'PUSH_SEND', 'PUSH_RECV', 'TERMINATE_SIGNALS', 'CANCEL_SEND', 'CANCEL_RECV', 'WR') or e.name.startswith('Q.p') or e.name == 'Q.clear' for e in sec):
                    continue  # read-only section
                nsec += 1
                mutating_bodies.add(key)
                for s0 in states:
                    # environment: the calling handle itself is alive
                    if side == 'S' and s0.sc == 0 and 'Drop' not in key and False:
                        continue
                    s = s0.copy()
                    try:
                        apply_section(sec, s, side)
                    except Infeasible:
                        continue
                    nfeasible += 1
                    per_body_feasible[key] = per_body_feasible.get(key, 0) + 1
                    bad = inv_violations(s)
                    if bad:
                        rk = (key, bad[0].split(':')[0], p.signature())
                        if rk in reported:
                            continue
                        reported.add(rk)
                        ctx.violate(key, p, 'critical section does not preserve the channel invariants: from state %s it reaches %s - %s' % (
                            s0.key(), s.key(), '; '.join(bad)), at=lock.at, sig=p.signature() + ':' + bad[0].split(':')[0])
    ctx.oblige(nfeasible, sample='%d mutating critical sections x %d abstract states: %d feasible (state, section) pairs all preserve I1-I4, I6' % (nsec, len(states), nfeasible))
    ctx.extra_evidence = {'abstract_states': len(states), 'sections': nsec, 'feasible_pairs': nfeasible}
    # non-vacuity: every body must have feasible pairs
    for key in sorted(mutating_bodies):
        if per_body_feasible.get(key, 0) == 0:
            ctx.violate(key, None, 'no abstract state makes any mutating critical section of this body feasible: the invariant check would be vacuous for it', sig='vacuous-body')
    if nfeasible == 0:
        ctx.violate('<crate>', None, 'anchor missing: no feasible (state, section) pair was found', sig='vacuous')
