"""M rules: the spin lock (mutex.rs, backoff.rs).  DESIGN.md §3.9."""
from engine import rule
import fam
import sem
from sem import labels, has, contains
from mir import fmt, canon, is_const, atomic_method
from rules_signal import atomic_ops, all_atomic_sites, ordering_of, ACQ, REL

TRY = '<mutex::RawMutexLock as lock_api::RawMutex>::try_lock'
LOCK = '<mutex::RawMutexLock as lock_api::RawMutex>::lock'
UNLOCK = '<mutex::RawMutexLock as lock_api::RawMutex>::unlock'
SLOW = 'mutex::RawMutexLock::lock_no_inline'
CLOS = 'mutex::RawMutexLock::lock_no_inline::{closure#0}'
SPIN = 'backoff::spin_cond'


def ret_paths(ctx, b):
    ps = ctx.paths(b)
    if ps is None:
        ctx.violate(b.key, None, 'cannot analyse: path explosion', sig='paths')
        return
    for p in ps:
        if p.end == 'return':
            yield p, ctx.sem(p)


def need(ctx, key):
    b = ctx.body(key)
    if b is None:
        ctx.violate(key, None, 'anchor missing: lock function not found', sig='anchor')
    return b


def spurious_retry_shape(evs, ops):
    """`loop { match flag.compare_exchange_weak(false, true, ..) { Ok(_) => return true, Err(true) => return false, Err(false) => continue } }`:
    every atomic operation but the last is a weak CAS false -> true that FAILED ALTHOUGH IT OBSERVED `false` - the spurious failure
    the weak form is allowed to have, the only outcome after which trying again is not waiting for the holder"""
    for o in ops[:-1]:
        if o['m'] != 'compare_exchange_weak':
            return False
        a = o['args']
        if not (is_const(a[0], 0) and is_const(a[1], 1)):
            return False
        v = o['ev'].val
        failed = [e for e in evs if e.name == 'BR' and e.data['label'] == 'cas' and contains(e.data['val'], v) and e.data['outcome'] == 'Err']
        if not failed:
            return False
        obs = ('field', ('downcast', v, 'Err'), '0')
        seen = [e for e in evs if e.name == 'BR?' and e.data.get('val') == obs]
        if len(seen) != 1:
            return False
        tk = seen[0].data.get('taken')
        if not (tk and tk[0] == '0'):
            return False  # tried again although the flag was observed set: that is waiting for the holder
    return True


def retry_only_after_spurious_failure(ctx, b):
    """try_lock with a loop: every path that goes round has the shape above, one CAS per round (k = 3 rounds looked at)"""
    ps = b.paths(max(ctx.k, 3))
    if ps is None:
        return False
    some = False
    for p in ps:
        if p.end == 'unreachable':
            continue
        ops = atomic_ops(p, 'locked')
        rounds = max([p.blocks.count(x) for x in set(map(lambda z: z if not isinstance(z, list) else tuple(z), p.blocks))] or [0])
        if rounds <= 1 and len(ops) <= 1:
            continue
        some = True
        if rounds != len(ops) or not spurious_retry_shape(ctx.sem(p), ops):
            return False
    return some


@rule('M1', ['C17'], 'RawMutexLock.locked is touched only by try_lock (one CAS false->true / swap true) and unlock (store false)', skip_std_mutex=True)
def m1(ctx):
    sites = all_atomic_sites(ctx, 'locked')
    got = {}
    for key, bb, m, at, op in sites:
        ctx.oblige(1, sample='%s: %s on RawMutexLock.locked' % (key, m))
        ctx.instance('%s %s' % (key, m))
        got.setdefault(key, []).append((m, op, at))
        if key == TRY and m in ('compare_exchange', 'compare_exchange_weak', 'swap'):
            continue
        if key == UNLOCK and m == 'store':
            continue
        if m == 'load' and (key in (SLOW, CLOS) or (fam.owners(ctx, key) and fam.owners(ctx, key) <= {SLOW, LOCK})):
            # test-and-test-and-set: the contended path looks at the flag before it attempts the CAS.  A load changes nothing and
            # decides nothing - M4 still demands that the spin condition answers true only with try_lock()'s own success
            continue
        if m == 'load' and key == TRY.replace('::try_lock', '::is_locked'):
            # lock_api's `RawMutex::is_locked` overridden with a plain load (its default is try_lock + unlock): a read-only answer
            # to a question nobody in the crate asks; it changes nothing and no acquisition depends on it
            continue
        if fam.is_delegate(ctx.facts, key):
            # a private helper holding the one atomic operation (`fn acquire_once(&self) -> Result<bool, bool>`, `fn release(&self)`):
            # it runs as part of its callers, whose paths (with the helper spliced in) are checked below
            os_ = fam.owners(ctx, key)
            if os_ and ((os_ <= {TRY} and m in ('compare_exchange', 'compare_exchange_weak', 'swap')) or (os_ <= {UNLOCK} and m == 'store')):
                continue
        ctx.violate(key, None, 'RawMutexLock.locked accessed (%s) outside try_lock/unlock' % m, at=at, sig='locked-access:' + m)
    b = need(ctx, TRY)
    if b is not None:
        for p, evs in ret_paths(ctx, b):
            ops = atomic_ops(p, 'locked')
            ctx.oblige(1, sample='try_lock -> %s' % fmt(p.ret))
            if len(ops) > 1 and spurious_retry_shape(evs, ops):
                ops = ops[-1:]  # the earlier rounds changed nothing (the CAS failed) and learned nothing (the flag was clear)
            if len(ops) != 1:
                ctx.violate(TRY, p, 'try_lock performs %d atomic operations on the flag (must be exactly one)' % len(ops))
                continue
            o = ops[0]
            r = p.ret
            if o['m'].startswith('compare_exchange'):
                a = o['args']
                if not (is_const(a[0], 0) and is_const(a[1], 1)):
                    ctx.violate(TRY, p, 'try_lock CAS is not false -> true', at=o['ev'].at)
                okr = r is not None and r[0] == 'call' and r[2] == 'std::result::Result::is_ok' and contains(r[3], o['ev'].val)
                if not okr and r is not None and r[0] == 'const' and r[1] == 'bool':
                    # `matches!(cas, Ok(_))` / `match cas { Ok(_) => true, Err(_) => false }`: a branch on the CAS result
                    brs = [e for e in evs if e.name == 'BR' and e.data['label'] == 'cas' and contains(e.data['val'], o['ev'].val)]
                    okr = bool(brs) and (brs[-1].data['outcome'] == 'Ok') == (r[2] == '1')
                if not okr:
                    ctx.violate(TRY, p, 'try_lock does not report success exactly when the CAS succeeded: %s' % fmt(r))
            elif o['m'] == 'swap':
                a = o['args']
                if not is_const(a[0], 1):
                    ctx.violate(TRY, p, 'try_lock swap does not set the flag', at=o['ev'].at)
                okr = r is not None and r[0] == 'un' and r[1] == 'Not' and r[2] == o['ev'].val
                if not okr:
                    ctx.violate(TRY, p, 'try_lock does not report success exactly when the flag was previously clear: %s' % fmt(r))
    b = need(ctx, UNLOCK)
    if b is not None:
        for p, evs in ret_paths(ctx, b):
            ops = atomic_ops(p, 'locked')
            ctx.oblige(1, sample='unlock stores false')
            if len(ops) != 1 or ops[0]['m'] != 'store' or not is_const(ops[0]['args'][0], 0):
                ctx.violate(UNLOCK, p, 'unlock is not exactly one store(false) of the flag')


@rule('M2', ['C17', 'C03'], 'lock orderings: acquire on successful acquisition, release on unlock', skip_std_mutex=True)
def m2(ctx):
    b = need(ctx, TRY)
    if b is not None:
        for p, evs in ret_paths(ctx, b):
            for o in atomic_ops(p, 'locked'):
                ctx.oblige(1, sample='try_lock %s %s' % (o['m'], o['ords']))
                ctx.instance('try_lock %s' % o['m'])
                if not o['ords'] or o['ords'][0] not in ACQ:
                    ctx.violate(TRY, p, 'acquisition ordering %s is weaker than Acquire: the critical section is not ordered after the previous holder\'s' % o['ords'][:1], at=o['ev'].at, sig='acquire')
    b = need(ctx, UNLOCK)
    if b is not None:
        for p, evs in ret_paths(ctx, b):
            for o in atomic_ops(p, 'locked'):
                ctx.oblige(1, sample='unlock %s %s' % (o['m'], o['ords']))
                ctx.instance('unlock %s' % o['m'])
                if not o['ords'] or o['ords'][0] not in REL:
                    ctx.violate(UNLOCK, p, 'unlock ordering %s is weaker than Release: the critical section\'s writes are not published' % o['ords'][:1], at=o['ev'].at, sig='release')


@rule('M3', ['C17', 'C14'], 'try_lock never waits: acyclic, calls only the atomic operation and a result adaptor', skip_std_mutex=True)
def m3(ctx):
    b = need(ctx, TRY)
    if b is None:
        return
    ctx.instance(TRY)
    ctx.oblige(1, sample='try_lock callees: %s' % sorted(set(b.callee_names())))
    retry_ok = None

    def spurious_only():
        nonlocal retry_ok
        if retry_ok is None:
            retry_ok = retry_only_after_spurious_failure(ctx, b)
        return retry_ok
    if b.has_cycle() and not spurious_only():
        ctx.violate(TRY, None, 'try_lock contains a loop', sig='cycle')
    seen = set()

    def scan(body, depth=0):
        for bb, t in body.all_calls():
            fn = t.get('fn')
            n = canon(fn['path']) if fn else '<indirect>'
            if atomic_method(n) or n in ('std::result::Result::is_ok', 'std::result::Result::is_err'):
                continue
            c = ctx.facts.bodies.get(fn['path']) if fn and fn.get('local') else None
            if c is not None and fam.is_delegate(ctx.facts, c.key) and depth < 3 and c.key not in seen:
                # a private helper: what it calls counts as called by try_lock
                seen.add(c.key)
                if c.has_cycle() and not spurious_only():
                    ctx.violate(TRY, None, 'try_lock calls %s, which contains a loop' % n, sig='callee-cycle:' + n)
                scan(c, depth + 1)
                continue
            ctx.violate(TRY, None, 'try_lock calls %s' % n, sig='callee:' + n)
    scan(b)


@rule('M4', ['C17', 'C06'], 'lock returns only once acquired; spin_cond cannot return unless cond() was true', skip_std_mutex=True)
def m4(ctx):
    b = need(ctx, LOCK)
    if b is not None:
        ctx.instance(LOCK)
        for p, evs in ret_paths(ctx, b):
            ctx.oblige(1, sample='lock [%s]' % p.signature())
            lb = labels(evs)
            fast = has(lb, 'trylock_ok', 'T')
            slow = any(e.kind == 'call' and e.name == 'mutex::RawMutexLock::lock_no_inline' for e in p.events)
            if not (fast or slow):
                ctx.violate(LOCK, p, 'lock() returns without a successful try_lock() and without the blocking slow path')
            for e in p.events:
                if e.kind == 'call' and e.name in ('lock_api::RawMutex::try_lock', 'mutex::RawMutexLock::lock_no_inline') and e.args[0] != ('param', 1):
                    ctx.violate(LOCK, p, 'lock() operates on a different mutex than self', at=e.at)
    b = need(ctx, SLOW)
    if b is not None:
        ctx.instance(SLOW)
        for p, evs in ret_paths(ctx, b):
            ctx.oblige(1, sample='lock_no_inline -> spin_cond(closure)')
            sc = [e for e in p.events if e.kind == 'call' and e.name == 'backoff::spin_cond']
            if len(sc) != 1:
                ctx.violate(SLOW, p, 'slow path does not call spin_cond exactly once')
                continue
            a = sc[0].args[0]
            if not (a[0] == 'agg' and a[1] == 'closure' and canon(a[2]) == canon(CLOS) and a[3] and contains(a[3][0], ('param', 1))):
                ctx.violate(SLOW, p, 'spin_cond is not given the closure that try_locks self: %s' % fmt(a))
    b = need(ctx, CLOS)
    if b is not None:
        ctx.instance(CLOS)
        for p, evs in ret_paths(ctx, b):
            ctx.oblige(1, sample='closure returns try_lock() un-negated')
            r = p.ret
            if r is not None and r[0] == 'const' and r[1] == 'bool' and r[2] == '0':
                # `!locked.load(Relaxed) && self.try_lock()`: a path that answers false without trying is fine (spin_cond asks again);
                # what matters is that no path answers true without try_lock() having said so
                continue
            if not (r is not None and r[0] == 'call' and r[2] == 'lock_api::RawMutex::try_lock'):
                ctx.violate(CLOS, p, 'spin condition is not exactly `self.try_lock()`: %s' % fmt(r))
    s = need(ctx, SPIN)
    if s is not None:
        ctx.instance(SPIN)
        ctx.oblige(1, sample='spin_cond: return unreachable once cond()==true edges are removed')
        removed, ncond = cond_true_edges(s, ctx.facts)
        if ncond == 0:
            ctx.violate(SPIN, None, 'spin_cond never calls its condition', sig='no-cond')
        reach = s.reachable(0, removed_edges=removed)
        rets = [b2 for b2 in reach if s.blocks[b2]['term']['k'] == 'return']
        if rets:
            ctx.violate(SPIN, None, 'spin_cond can return without the condition having been observed true (lock() would return without owning the lock)', at=s.blocks[rets[0]]['term'].get('at'), sig='early-return')
        # once cond() held, return is reached directly: no further cond() call, no loop.  (The condition acquires
        # the lock as a side effect; evaluating it again can never succeed - the caller would spin for ever.)
        condblocks = set()
        for bi in s.normal_blocks():
            tt = s.blocks[bi]['term']
            if is_cond_call(ctx.facts, tt, s):
                condblocks.add(bi)
        for (src, dst) in sorted(removed):
            ctx.oblige(1, sample='cond()==true edge bb%d->bb%d leads straight to return' % (src, dst))
            seen = set()
            stack = [dst]
            bad = None
            on_path_cycle = False
            while stack and bad is None:
                x = stack.pop()
                if x in seen:
                    continue
                seen.add(x)
                if x in condblocks:
                    bad = ('cond', x)
                    break
                for y in s.succs(x):
                    stack.append(y)
            if bad is None:
                # any cycle among the blocks reachable after success?
                for comp in s.sccs():
                    if (len(comp) > 1 or comp[0] in s.succs(comp[0])) and set(comp) & seen:
                        bad = ('loop', comp[0])
                        break
            if bad is not None:
                ctx.violate(SPIN, None, 'after the condition held (edge bb%d->bb%d) spin_cond does not return directly but %s: with try_lock as the condition the lock is already owned, so it can never hold again and lock() never returns' % (
                    src, dst, 're-evaluates the condition' if bad[0] == 'cond' else 'enters a loop'), at=s.blocks[bad[1]]['term'].get('at'), sig='no-return-after-success')


FN_CALLS = ('std::ops::Fn::call', 'std::ops::FnMut::call_mut', 'std::ops::FnOnce::call_once')


def closure_of_operand(body, o, depth=0):
    """key of the closure an operand denotes (a local assigned a closure aggregate, possibly through copies / borrows)"""
    if depth > 6 or not isinstance(o, dict):
        return None
    if o.get('k') in ('copy', 'move') and not [x for x in o['p']['p'] if x != '*']:
        l = o['p']['l']
        defs = [s for blk in body.blocks for s in blk['stmts'] if s['k'] == 'assign' and not s['lhs']['p'] and s['lhs']['l'] == l]
        if len(defs) == 1:
            rv = defs[0]['rv']
            if rv['k'] == 'agg' and rv.get('ak') == 'closure':
                return rv.get('name')
            if rv['k'] == 'use':
                return closure_of_operand(body, rv['o'], depth + 1)
            if rv['k'] in ('ref', 'rawptr') and not [x for x in rv['p']['p'] if x != '*']:
                return closure_of_operand(body, {'k': 'copy', 'p': {'l': rv['p']['l'], 'p': []}}, depth + 1)
    return None


def any_is_cond_like(facts, body, t):
    """`iter.any(closure)` with a closure that answers true only after the condition was observed true: `any` itself then
    returns true only after the condition was observed true"""
    if t['k'] != 'call' or not t.get('fn') or canon(t['fn']['path']) != 'std::iter::Iterator::any' or len(t['args']) != 2:
        return False
    ck = closure_of_operand(body, t['args'][1])
    return ck is not None and cond_like(facts, ck)


def cond_like(facts, key, _seen=None):
    """a crate-local helper that evaluates the condition closure it is given and returns true ONLY if the condition was
    observed true (e.g. `fn poll_cond(cond, tries) -> bool { for _ in 0..tries { if cond() { return true } } false }`)"""
    b = facts.bodies.get(key)
    if b is None or b.j.get('def_kind') not in ('Fn', 'AssocFn', 'Closure'):
        return False
    cache = facts.__dict__.setdefault('_condlike', {})
    if key in cache:
        return cache[key]
    cache[key] = False
    names_ = set(b.callee_names())
    if not any(n in FN_CALLS for n in names_) and 'std::iter::Iterator::any' not in names_ and not any(
            t_.get('fn') and t_['fn'].get('local') and cond_like(facts, t_['fn']['path']) for _, t_ in b.all_calls()):
        return False
    ps = b.paths(1)
    if not ps:
        return False
    ok = True
    for p in ps:
        if p.end != 'return':
            continue
        r = p.ret
        if r is None:
            ok = False
            break
        if r[0] == 'const' and r[1] == 'bool' and r[2] == '0':
            continue
        if r[0] == 'call' and r[2] in FN_CALLS:
            continue
        if r[0] == 'call' and r[2] == 'std::iter::Iterator::any' and len(r[3]) == 2:
            cv = r[3][1]
            if cv[0] in ('ref', 'rawptr') and len(cv) > 2 and cv[2] is not None:
                cv = cv[2]
            if cv[0] == 'agg' and cv[1] == 'closure' and cond_like(facts, cv[2]):
                continue
        if r[0] == 'call' and facts.bodies.get(r[2]) is None:
            cands = [k_ for k_ in facts.bodies if canon(k_) == r[2]]
            if len(cands) == 1 and cond_like(facts, cands[0]):
                continue
        if r[0] == 'const' and r[1] == 'bool' and r[2] == '1':
            conds = [e for e in p.events if e.kind == 'br' and e.label == 'cond']
            if conds and conds[-1].outcome == 'T':
                continue
        ok = False
        break
    cache[key] = ok
    return ok


def cond_until(facts, key):
    """a crate-local helper without a boolean result that returns ONLY after the condition closure it was given returned
    true (e.g. `fn yield_until(cond) { while !cond() { yield_now() } }`)"""
    b = facts.bodies.get(key)
    if b is None or b.j.get('def_kind') not in ('Fn', 'AssocFn'):
        return False
    cache = facts.__dict__.setdefault('_conduntil', {})
    if key in cache:
        return cache[key]
    cache[key] = False
    if not any(n in FN_CALLS for n in b.callee_names()) and not any(
            t_.get('fn') and t_['fn'].get('local') and cond_like(facts, t_['fn']['path']) for _, t_ in b.all_calls()):
        return False
    if b.locals[0]['ty'] != '()':
        return False
    removed, ncond = cond_true_edges(b, facts)
    if ncond == 0:
        return False
    reach = b.reachable(0, removed_edges=removed)
    ok = not any(b.blocks[x]['term']['k'] == 'return' for x in reach)
    cache[key] = ok
    return ok


def is_cond_call(facts, t, body=None):
    if t['k'] != 'call' or not t.get('fn'):
        return False
    n = canon(t['fn']['path'])
    if n in FN_CALLS:
        return True
    if facts is not None and t['fn'].get('local') and (cond_like(facts, t['fn']['path']) or cond_until(facts, t['fn']['path'])):
        return True
    if facts is not None and body is not None and any_is_cond_like(facts, body, t):
        return True
    return False


def cond_true_edges(body, facts=None):
    """edges (b, succ) taken when a call of the `cond` argument (or of a cond-like helper) returned true, and the number
    of such calls"""
    removed = set()
    ncond = 0
    for bi in body.normal_blocks():
        t = body.blocks[bi]['term']
        if not is_cond_call(facts, t, body):
            continue
        if facts is not None and t.get('fn') and t['fn'].get('local') and canon(t['fn']['path']) not in FN_CALLS and cond_until(facts, t['fn']['path']):
            # returning from such a helper IS the observation that the condition held
            ncond += 1
            if t.get('target') is not None:
                removed.add((bi, t['target']))
            continue
        # callee object must be the first argument of spin_cond (the closure parameter)
        a0 = t['args'][0] if t['args'] else None
        ncond += 1
        dest = t['dest']
        nb = t['target']
        if nb is None:
            continue
        # follow gotos to the switch on the destination local
        cur = nb
        guard = 0
        negated = False
        val_local = dest['l']
        while guard < 6:
            guard += 1
            blk = body.blocks[cur]
            # track simple copies / Not of the result
            for st in blk['stmts']:
                if st['k'] == 'assign' and st['rv']['k'] == 'use' and st['rv']['o'].get('p', {}).get('l') == val_local and not st['lhs']['p']:
                    val_local = st['lhs']['l']
                if st['k'] == 'assign' and st['rv']['k'] == 'un' and st['rv']['op'] == 'Not' and st['rv']['a'].get('p', {}).get('l') == val_local:
                    val_local = st['lhs']['l']
                    negated = not negated
            tt = blk['term']
            if tt['k'] == 'goto':
                cur = tt['target']
                continue
            if tt['k'] == 'switch' and tt['o'].get('p', {}).get('l') == val_local:
                for v, tb in tt['targets']:
                    truth = (v != '0')
                    if truth != negated:
                        removed.add((cur, tb))
                listed = [v for v, _ in tt['targets']]
                if listed == ['0']:
                    if not negated:
                        removed.add((cur, tt['otherwise']))
                elif listed == ['1']:
                    if negated:
                        removed.add((cur, tt['otherwise']))
            break
    return removed, ncond


@rule('M5', ['C17', 'C06'], 'every unbounded cycle of spin_cond re-tests the condition', skip_std_mutex=True)
def m5(ctx):
    s = need(ctx, SPIN)
    if s is None:
        return
    ctx.instance(SPIN)
    for comp in s.sccs():
        cs = set(comp)
        cyc = len(comp) > 1 or comp[0] in s.succs(comp[0])
        if not cyc:
            continue
        ctx.oblige(1, sample='cycle of %d blocks contains cond() or is a bounded range loop' % len(comp))
        has_cond = False
        bounded = False
        for bi in comp:
            t = s.blocks[bi]['term']
            if t['k'] == 'call' and t.get('fn'):
                n = canon(t['fn']['path'])
                if is_cond_call(ctx.facts, t, s):
                    has_cond = True
                if n == 'std::iter::Iterator::next' and any('Range' in a for a in t['fn']['args']):
                    # bounded if the None edge leaves the component
                    nb = t['target']
                    tt = s.blocks[nb]['term'] if nb is not None else None
                    if tt and tt['k'] == 'switch':
                        for v, tb in tt['targets']:
                            if v == '0' and tb not in cs:
                                bounded = True
        if not has_cond and not bounded:
            ctx.violate(SPIN, None, 'spin_cond contains an unbounded loop that never re-tests the condition (blocks %s): lock() would not succeed once the holder leaves' % sorted(comp)[:6], at=s.blocks[sorted(comp)[0]]['term'].get('at'), sig='blind-loop')


@rule('M7', ['C17', 'C06'], 'the retry counts of spin_cond stay positive: a round of the outer loop can never skip every re-test of the condition', skip_std_mutex=True)
def m7(ctx):
    s = need(ctx, SPIN)
    if s is None:
        return
    ctx.instance(SPIN)
    blocks = s.blocks

    def root(o, depth=0):
        """follow plain copies of temporaries back to the local they copy"""
        if o.get('k') == 'const':
            return ('const', o.get('val'))
        if o.get('k') in ('copy', 'move') and not o['p']['p']:
            l = o['p']['l']
            defs = [st for blk in blocks for st in blk['stmts'] if st['k'] == 'assign' and not st['lhs']['p'] and st['lhs']['l'] == l]
            if len(defs) == 1 and defs[0]['rv']['k'] == 'use' and depth < 6:
                return root(defs[0]['rv']['o'], depth + 1)
            return ('local', l)
        return ('?',)

    ends = set()
    for blk in blocks:
        for st in blk['stmts']:
            if st['k'] == 'assign' and st['rv']['k'] == 'agg' and str(st['rv'].get('name', '')).endswith('ops::Range') and len(st['rv'].get('fields', [])) == 2:
                r = root(st['rv']['fields'][1])
                if r[0] == 'local':
                    ends.add(r[1])
    preds = {}
    for i, blk in enumerate(blocks):
        for j in s.succs(i):
            preds.setdefault(j, []).append(i)
    for L in sorted(ends):
        asg = [(i, st) for i, blk in enumerate(blocks) for st in blk['stmts'] if st['k'] == 'assign' and not st['lhs']['p'] and st['lhs']['l'] == L]
        calls = [i for i, blk in enumerate(blocks) if blk['term']['k'] == 'call' and not blk['term']['dest']['p'] and blk['term']['dest']['l'] == L]
        if len(asg) + len(calls) <= 1 and asg and asg[0][1]['rv']['k'] == 'use' and asg[0][1]['rv']['o'].get('k') == 'const':
            c = asg[0][1]['rv']['o'].get('val')
            ctx.oblige(1, sample='retry count _%d is the constant %s' % (L, c))
            continue  # a constant count (possibly 0: that phase is simply switched off); the unbounded loop is M5's business
        if len(asg) + len(calls) == 1 and asg and asg[0][1]['rv']['k'] == 'bin' and root(asg[0][1]['rv']['a'])[0] == 'const' and root(asg[0][1]['rv']['b'])[0] == 'const':
            ctx.oblige(1, sample='retry count _%d is a constant expression' % L)
            continue
        ctx.instance('retry count _%d' % L)
        for i in calls:
            ctx.violate(SPIN, None, 'retry count _%d is the result of a call: it may be zero, and then the round never re-tests the condition' % L, at=blocks[i]['term'].get('at'), sig='retry-call')
        for i, st in asg:
            rv = st['rv']
            ctx.oblige(1, sample='retry count _%d := %s' % (L, rv.get('op', rv['k'])))
            ok = False
            why = 'an expression that can be zero'
            if rv['k'] == 'use':
                r = root(rv['o'])
                ok = (r[0] == 'const' and str(r[1]).isdigit() and int(r[1]) > 0) or r == ('local', L)
                if r[0] == 'const' and not ok:
                    why = 'the constant %s' % r[1]
            elif rv['k'] == 'bin':
                a, b_ = root(rv['a']), root(rv['b'])
                op = rv['op']
                selfish = a == ('local', L)
                if selfish and op in ('Add', 'AddUnchecked', 'BitOr') and b_[0] == 'const':
                    ok = True
                elif selfish and op in ('Shl', 'ShlUnchecked', 'Mul', 'MulUnchecked') and b_[0] == 'const' and (op.startswith('Shl') or (str(b_[1]).isdigit() and int(b_[1]) >= 1)):
                    # growth must be bounded, otherwise the count wraps to zero
                    guarded = False
                    for pb in preds.get(i, []):
                        tt = blocks[pb]['term']
                        if tt['k'] == 'switch':
                            g = tt['o']
                            if g.get('k') in ('copy', 'move') and not g['p']['p']:
                                gd = [x for blk2 in blocks for x in blk2['stmts'] if x['k'] == 'assign' and not x['lhs']['p'] and x['lhs']['l'] == g['p']['l']]
                                if len(gd) == 1 and gd[0]['rv']['k'] == 'bin' and gd[0]['rv']['op'] in ('Lt', 'Le') and root(gd[0]['rv']['a']) == ('local', L):
                                    guarded = True
                    ok = guarded
                    if not guarded:
                        why = 'unbounded growth (%s) that wraps around to zero' % op
                else:
                    why = '%s, which can yield zero' % op
            if not ok:
                ctx.violate(SPIN, None, 'the retry count _%d is assigned %s: once it is zero the inner loops are empty, the condition is never evaluated again and lock() spins for ever although the holder has left' % (L, why), at=st.get('at'), sig='retry-zero:%s' % rv.get('op', rv['k']))


BYPASS = {
    'lock_api::Mutex::data_ptr', 'lock_api::Mutex::force_unlock', 'lock_api::Mutex::force_unlock_fair', 'lock_api::Mutex::raw',
    'lock_api::Mutex::make_guard_unchecked', 'lock_api::Mutex::get_mut', 'lock_api::Mutex::into_inner',
    'lock_api::MutexGuard::unlocked', 'lock_api::MutexGuard::unlocked_fair', 'lock_api::MutexGuard::bump', 'lock_api::MutexGuard::leak',
    'lock_api::MutexGuard::map', 'lock_api::MutexGuard::try_map', 'lock_api::MutexGuard::mutex', 'lock_api::MutexGuard::unlock_fair',
    'std::sync::Mutex::get_mut', 'std::sync::Mutex::into_inner', 'std::sync::Mutex::clear_poison', 'std::sync::Mutex::data_ptr',
    'std::sync::Arc::as_ptr', 'std::sync::Arc::into_raw', 'std::sync::Arc::from_raw', 'std::sync::Arc::get_mut_unchecked',
    'std::sync::Arc::get_mut', 'std::sync::Arc::try_unwrap', 'std::sync::Arc::into_inner', 'std::sync::Arc::increment_strong_count',
    'std::sync::Arc::decrement_strong_count', 'std::sync::Arc::make_mut',
    'lock_api::RawMutex::unlock', 'lock_api::RawMutex::lock', 'lock_api::RawMutex::try_lock',
}
RAW_OK = {LOCK, SLOW, CLOS}  # the lock's own implementation may call its raw methods


def address_only(body, t):
    """`Arc::as_ptr(..)` that cannot reach the protected state: the Arc does not hold the channel state at all, or the pointer
    is used as an address only (compared, hashed, printed, cast to an integer) and never dereferenced or handed on"""
    targ = ' '.join(str(a) for a in (t['fn'].get('args') or []))
    if 'ChannelInternal' not in targ:
        return True
    if t.get('dest') is None or t['dest']['p']:
        return False
    taint = {t['dest']['l']}
    OKCALLS = ('std::ptr::eq', 'std::hash::Hash::hash', 'std::cmp::PartialEq::eq', 'std::cmp::PartialEq::ne', 'std::ptr::addr_eq')
    for _ in range(8):
        grew = False
        for blk in body.blocks:
            for st in blk['stmts']:
                if st['k'] != 'assign':
                    continue
                rv = st['rv']
                ops = []
                if rv['k'] in ('use', 'cast', 'repeat'):
                    ops = [rv['o']]
                elif rv['k'] == 'bin':
                    ops = [rv['a'], rv['b']]
                elif rv['k'] == 'un':
                    ops = [rv['a']]
                elif rv['k'] == 'agg':
                    ops = list(rv['fields'])
                elif rv['k'] in ('ref', 'rawptr'):
                    if rv['p']['l'] in taint and '*' in rv['p']['p']:
                        return False
                    if rv['p']['l'] in taint and st['lhs']['l'] not in taint:
                        taint.add(st['lhs']['l'])
                        grew = True
                    continue
                for o in ops:
                    if o.get('k') in ('copy', 'move') and o['p']['l'] in taint:
                        if '*' in o['p']['p']:
                            return False
                        if rv['k'] == 'bin':
                            continue  # comparison result: a bool
                        if rv['k'] == 'cast' and str(rv.get('ty', '')).strip() in ('usize', 'u64', 'isize', 'i64', 'u128'):
                            continue  # an address as a number: the end of the pointer
                        if rv['k'] == 'cast' and str(rv.get('ty', '')).replace(' ', '') in ('*const()', '*mut()'):
                            continue  # a type-erased address (`Arc::as_ptr(..) as *const ()`): nothing to dereference
                        if st['lhs']['l'] not in taint:
                            taint.add(st['lhs']['l'])
                            grew = True
                if st['lhs']['l'] in taint and '*' in st['lhs']['p']:
                    return False
            tt = blk['term']
            if tt['k'] == 'call' and tt is not t:
                for o in tt.get('args') or []:
                    if o.get('k') in ('copy', 'move') and o['p']['l'] in taint:
                        if '*' in o['p']['p']:
                            return False
                        cn = canon(tt['fn']['path']) if tt.get('fn') else ''
                        if cn not in OKCALLS and not cn.startswith('std::fmt::'):
                            return False
        if not grew:
            break
    if 0 in taint:
        return False  # the pointer itself leaves the function
    return True


@rule('M6', ['C03', 'C17'], 'no bypass of the channel lock: no raw access to the protected state, no forced unlock, no guard leak')
def m6(ctx):
    n = 0
    for key, b in ctx.facts.bodies.items():
        for bb, t in b.all_calls():
            if not t.get('fn'):
                continue
            name = canon(t['fn']['path'])
            n += 1
            if name in BYPASS:
                if name.startswith('lock_api::RawMutex::') and key in RAW_OK:
                    continue
                if name == 'std::sync::Arc::as_ptr' and address_only(b, t):
                    continue
                ctx.violate(key, None, 'call to %s bypasses the channel lock discipline' % name, at=t.get('at'), sig='bypass:' + name)
    ctx.oblige(n, sample='%d call sites scanned, none in the bypass set' % n)
    ctx.instance('call sites scanned: %d' % n)
    # positive control: the matcher must fire on a synthetic call site
    ctrl = canon('lock_api::Mutex::<R, T>::data_ptr')
    if ctrl not in BYPASS:
        ctx.violate('<control>', None, 'positive control failed: bypass matcher does not recognise Mutex::data_ptr', sig='control')
    # only acquire_internal / try_acquire_internal may lock the channel mutex
    for key, b in ctx.facts.bodies.items():
        for bb, t in b.all_calls():
            if not t.get('fn'):
                continue
            name = canon(t['fn']['path'])
            if name in ('lock_api::Mutex::lock', 'lock_api::Mutex::try_lock', 'std::sync::Mutex::lock', 'std::sync::Mutex::try_lock',
                        'lock_api::Mutex::try_lock_for', 'lock_api::Mutex::try_lock_until'):
                ctx.oblige(1)
                ctx.instance('%s calls %s' % (key, name))
                if key not in ('internal::acquire_internal', 'internal::try_acquire_internal') and not fam.allowed_for(
                        ctx, key, {'internal::acquire_internal', 'internal::try_acquire_internal'}):
                    ctx.violate(key, None, 'channel mutex locked outside acquire_internal/try_acquire_internal', at=t.get('at'), sig='lock-outside')


BLOCKING_CALLS = {'signal::Signal::wait', 'signal::Signal::wait_timeout', 'signal::Signal::async_blocking_wait',
                  'std::thread::park', 'std::thread::park_timeout', 'std::thread::sleep', 'backoff::sleep',
                  'std::thread::yield_now', 'backoff::yield_now_std', 'backoff::yield_now', 'backoff::spin_wait',
                  'backoff::spin_cond'}


@rule('W1', ['C03', 'C06', 'C17', 'C14'], 'lock hygiene in every body: no nested acquisition, no blocking call inside a critical section, every guard released before return')
def w1(ctx):
    import sem as _sem
    for key, b in ctx.facts.bodies.items():
        names = set(b.callee_names())
        if not ({'internal::acquire_internal', 'internal::try_acquire_internal'} & names):
            continue
        ps = ctx.paths(b)
        if ps is None:
            ctx.violate(key, None, 'cannot analyse: path explosion', sig='paths')
            continue
        ctx.instance(key)
        for p in ps:
            if p.end not in ('return', 'panic'):
                continue
            evs = ctx.sem(p)
            ctx.oblige(1)
            held = {}
            for e in evs:
                if e.name in ('LOCK', 'TRYLOCK'):
                    if held:
                        ctx.violate(key, p, 'channel lock acquired while it is already held on this path (self-deadlock on the spin lock)', at=e.at)
                    held[e.data['sid']] = e
                elif e.name == 'UNLOCK':
                    for sid in list(held):
                        if held[sid].data['guard'] == e.data['guard']:
                            del held[sid]
                elif e.name == 'FORGET' and held and any(h.data['guard'] == e.data['val'] for h in held.values()):
                    ctx.violate(key, p, 'lock guard forgotten: the channel stays locked for ever', at=e.at)
                elif e.sec is not None and held:
                    callee = None
                    if e.name == 'CALL':
                        callee = e.data['callee']
                    elif e.name in ('SIG.wait', 'SIG.wait_timeout', 'SIG.async_blocking_wait'):
                        callee = 'signal::Signal::' + e.name[4:]
                    if callee in BLOCKING_CALLS:
                        ctx.violate(key, p, 'blocking call %s while the channel lock is held (every other operation spins until it returns)' % callee, at=e.at)
            if p.end == 'return' and held:
                from mir import private_helper as _ph
                if _ph(b) and p.ret is not None and all(contains(p.ret, h.data['guard']) for h in held.values()):
                    # a private helper handing the still-held guard back to its caller (`TimedWait::Cancelled(guard)`,
                    # `Result<T, Guard>`): the critical section continues in the caller, whose paths contain this body
                    continue
                ctx.violate(key, p, 'returns with the channel lock still held (guard moved out or leaked)')
