"""R rules: RECV family, per path.  See DESIGN.md §3.4."""
from engine import rule
import fam
import sem
from sem import labels, has, contains
from mir import fmt
from rules_send import one_section_check, signal_of_terminator, operands_of_rvalue

STATE_EVENTS_RECV = ('Q.pop_front', 'NEXT_SEND', 'PUSH_RECV')
VEC = 'std::vec::Vec::'


def is_poll(body):
    return fam.body_kind(body)[0] == 'future'


def op_arm(body, evs):
    if not is_poll(body):
        return True
    return any(e.name == 'RD' and e.data['field'] == 'recv_count' and e.sec is not None for e in evs)


def is_drain(body):
    for i in range(1, body.arg_count + 1):
        if body.locals[i]['ty'].startswith('&mut std::vec::Vec<T'):
            return True
    return False


def vec_param(body):
    for i in range(1, body.arg_count + 1):
        if body.locals[i]['ty'].startswith('&mut std::vec::Vec<T'):
            return i
    return None


def recv_paths(ctx):
    for b in fam.recv_bodies(ctx):
        ps = ctx.paths(b)
        if ps is None:
            ctx.violate(b.key, None, 'cannot analyse: path explosion', sig='paths')
            continue
        for p in ps:
            if p.end != 'return':
                continue
            evs = ctx.sem(p)
            if not op_arm(b, evs):
                continue
            yield b, p, evs


def some_payload(res):
    return ('field', ('downcast', res, 'Some'), '0')


@rule('R0', ['C01', 'C02', 'C10', 'C11', 'C13', 'C14', 'C18', 'C19', 'C09'], 'RECV family inventory')
def r0(ctx):
    fam.check_family(ctx, fam.recv_bodies(ctx), fam.expected_recv(ctx), 'RECV')
    ctx.oblige(len(fam.expected_recv(ctx)))


@rule('R1', ['C10', 'C18', 'C19', 'C09'], 'closed-first on the receive side')
def r1(ctx):
    for b, p, evs in recv_paths(ctx):
        for e in evs:
            if e.name in STATE_EVENTS_RECV:
                ctx.oblige(1, sample='%s: %s requires rc0:F in its section' % (b.key, e.name))
                ctx.instance('%s %s' % (b.key, e.name))
                lb = labels(evs, upto=e.idx, sec=e.sec)
                if e.sec is None or not has(lb, 'rc0', 'F'):
                    ctx.violate(b.key, p, '%s without a preceding recv_count!=0 test in the same critical section' % e.name, at=e.at)
        lb = labels(evs)
        if has(lb, 'rc0', 'T'):
            ctx.oblige(1)
            bad = [e for e in evs if e.name in STATE_EVENTS_RECV + ('SIGRECV', 'Q.push_back')]
            if bad:
                ctx.violate(b.key, p, 'channel state touched (%s) although recv_count==0' % bad[0].name, at=bad[0].at)
            rk = fam.success_kind(fam.final_ret(p, evs))
            if rk != 'err:Closed':
                ctx.violate(b.key, p, 'recv_count==0 must return Closed, returns %s' % rk)


def last_outcome(evs, label, before):
    out = None
    for e in evs:
        if e.idx >= before:
            break
        if e.name == 'BR' and e.data['label'] == label:
            out = e.data['outcome']
    return out


def is_late(lb):
    """the path observed that the deadline is reached: `now > deadline`, `now >= deadline` (Timeout AT the deadline is not before
    it), or the negations of `now < deadline` / `now <= deadline`"""
    return has(lb, 'late', 'T') or has(lb, 'late_ge', 'T') or has(lb, 'before_deadline', 'F') or has(lb, 'before_deadline_le', 'F')


def pop_outcome(evs, before):
    """what the latest dequeue attempt before event `before` returned: the branch on ITS result, wherever on the path that
    branch is taken (`let v = pop_front(); let next = next_send()...; match (v, next)` tests the result later)"""
    pops = [e for e in evs if e.name == 'Q.pop_front' and e.idx < before]
    if not pops:
        return last_outcome(evs, 'pop', before)
    p0 = pops[-1]
    later = [e for e in evs if e.name == 'Q.pop_front' and e.idx > p0.idx]
    end = later[0].idx if later else 10 ** 9
    for e in evs:
        if e.idx > p0.idx and e.idx < end and e.name == 'BR' and e.data['label'] == 'pop' \
                and (e.data.get('synthetic') or p0.data.get('res') is None or contains(e.data.get('val'), p0.data['res'])):
            return e.data['outcome']
    return None


def pop_event_of(evs, br):
    """the dequeue attempt whose result the branch `br` tests"""
    pops = [e for e in evs if e.name == 'Q.pop_front' and e.idx < br.idx]
    return pops[-1] if pops else br


def no_blocked_sender(evs, before, sec=None):
    """evidence, at event index `before`, that no sender is blocked: next_send() answered None, or the buffer was found
    empty on a channel with capacity > 0 (senders park only behind a FULL buffer and every dequeue promotes one: invariant
    I2, shown inductive by rule I0)"""
    if last_outcome(evs, 'next_send', before) == 'None':
        return True
    return last_outcome(evs, 'cap0', before) == 'F' and last_outcome(evs, 'pop', before) == 'None'


@rule('R2', ['C02', 'C19', 'C18'], 'buffer before blocked senders')
def r2(ctx):
    for b, p, evs in recv_paths(ctx):
        for e in evs:
            if e.name == 'NEXT_SEND':
                ctx.oblige(1, sample='%s: next_send only after pop_front in the same section' % b.key)
                ctx.instance('%s NEXT_SEND' % b.key)
                pops = [x for x in evs if x.name == 'Q.pop_front' and x.idx < e.idx and x.sec == e.sec]
                if not pops:
                    ctx.violate(b.key, p, 'next_send() without first looking at the buffer in the same critical section', at=e.at)
        # a sender's value delivered directly to the caller requires the buffer to be empty
        for e in evs:
            if e.name == 'SIGRECV':
                res = e.data['res']
                refill = any(x.name == 'Q.push_back' and x.data['args'] and x.data['args'][0] == res for x in evs)
                lp = pop_outcome(evs, e.idx)
                ctx.oblige(1)
                if refill:
                    if lp != 'Some':
                        ctx.violate(b.key, p, 'blocked sender\'s value appended to the buffer although no element was just dequeued (buffer could exceed capacity / reorder)', at=e.at)
                else:
                    if lp != 'None':
                        ctx.violate(b.key, p, 'blocked sender\'s value delivered to the caller while the buffer was not observed empty (overtakes buffered messages)', at=e.at)


@rule('R3', ['C02', 'C06', 'C08'], 'refill of the buffer from the oldest blocked sender after a dequeue')
def r3(ctx):
    for b, p, evs in recv_paths(ctx):
        if is_drain(b):
            continue
        for e in evs:
            if e.name == 'BR' and e.data['label'] == 'pop' and e.data['outcome'] == 'Some':
                ctx.oblige(1, sample='%s [%s]: dequeue is followed by next_send and refill' % (b.key, p.signature()))
                ctx.instance('%s pop:Some' % b.key)
                ns = [x for x in evs if x.name == 'NEXT_SEND' and x.idx > pop_event_of(evs, e).idx and x.sec == e.sec]
                if not ns:
                    ctx.violate(b.key, p, 'element dequeued but no next_send() in the same critical section: a blocked sender is not moved into the freed place (later senders overtake it; it may hang)', at=e.at)
                    continue
                n = ns[0]
                got = [x for x in evs if x.name == 'BR' and x.data['label'] == 'next_send' and x.idx > n.idx]
                if got and got[0].data['outcome'] == 'Some':
                    pay = some_payload(n.data['res'])
                    sr = [x for x in evs if x.name == 'SIGRECV' and x.data['args'][0] == pay and x.sec == e.sec]
                    if not sr:
                        ctx.violate(b.key, p, 'blocked sender popped after a dequeue but its value is not received inside the critical section', at=n.at)
                        continue
                    pb = [x for x in evs if x.name == 'Q.push_back' and x.data['args'] and x.data['args'][0] == sr[0].data['res'] and x.sec == e.sec]
                    if not pb:
                        ctx.violate(b.key, p, 'blocked sender\'s value is not appended to the buffer tail in the same critical section', at=sr[0].at)


@rule('R4', ['C01', 'C06', 'C03', 'C07', 'C19'], 'receive only from a sender popped under the lock on this path; a popped sender is always completed')
def r4(ctx):
    for b, p, evs in recv_paths(ctx):
        nexts = [e for e in evs if e.name == 'NEXT_SEND']
        for e in evs:
            if e.name == 'SIGRECV':
                ctx.oblige(1, sample='%s: SIGRECV terminator is the Some payload of next_send' % b.key)
                ctx.instance('%s SIGRECV' % b.key)
                t = e.data['args'][0]
                if not any(n.idx < e.idx and t == some_payload(n.data['res']) for n in nexts):
                    ctx.violate(b.key, p, 'SignalTerminator::recv on a terminator that is not the payload of a next_send() on this path: %s' % fmt(t), at=e.at)
        for n in nexts:
            got = [x for x in evs if x.name == 'BR' and x.data['label'] == 'next_send' and x.idx > n.idx]
            if got and got[0].data['outcome'] == 'Some':
                ctx.oblige(1)
                pay = some_payload(n.data['res'])
                uses = [x for x in evs if x.name in ('SIGRECV', 'SIGTERM', 'SIGSEND') and x.data['args'][0] == pay]
                if len(uses) != 1:
                    ctx.violate(b.key, p, 'sender popped from the wait list is completed %d times (must be exactly once; otherwise it hangs or is released twice)' % len(uses), at=n.at)
                elif uses[0].name != 'SIGRECV':
                    ctx.violate(b.key, p, 'sender popped from the wait list is completed with %s instead of recv' % uses[0].name, at=uses[0].at)


@rule('R5', ['C11', 'C18'], 'send-side disconnect is reported only after the buffer and the blocked senders were drained')
def r5(ctx):
    for b, p, evs in recv_paths(ctx):
        for e in evs:
            if e.name == 'BR' and e.data['label'] == 'sc0':
                ctx.oblige(1, sample='%s: sc0 only after pop:None and next_send:None' % b.key)
                ctx.instance('%s sc0 test' % b.key)
                lb = labels(evs, upto=e.idx, sec=e.sec)
                if not (last_outcome(evs, 'pop', e.idx) == 'None' and no_blocked_sender(evs, e.idx)):
                    ctx.violate(b.key, p, 'send_count tested before the buffer and the blocked senders were found empty', at=e.at)
                rd = [x for x in evs if x.name == 'RD' and x.data['field'] == 'send_count' and x.idx < e.idx]
                if not rd or rd[-1].sec is None:
                    ctx.violate(b.key, p, 'send_count not read under the lock', at=e.at)
                if e.data['outcome'] == 'T':
                    rk = fam.success_kind(fam.final_ret(p, evs))
                    if rk != 'err:SendClosed':
                        ctx.violate(b.key, p, 'send_count==0 with nothing left must return SendClosed, returns %s' % rk)
                    if any(x.name == 'PUSH_RECV' for x in evs):
                        ctx.violate(b.key, p, 'receiver registered although no sender is left')
        rk = fam.success_kind(fam.final_ret(p, evs))
        if rk == 'err:SendClosed':
            lb = labels(evs)
            if not has(lb, 'sc0', 'T'):
                ctx.violate(b.key, p, 'SendClosed returned without send_count==0')


@rule('R6', ['C06', 'C08', 'C18', 'C09', 'C16'], 'registration of a blocked receiver')
def r6(ctx):
    for b, p, evs in recv_paths(ctx):
        for e in evs:
            if e.name != 'PUSH_RECV':
                continue
            ctx.oblige(1, sample='%s: push_recv requires pop:None, next_send:None, sc0:F' % b.key)
            ctx.instance('%s PUSH_RECV' % b.key)
            lb = labels(evs, upto=e.idx, sec=e.sec)
            if e.sec is None:
                ctx.violate(b.key, p, 'push_recv outside a critical section', at=e.at)
                continue
            if last_outcome(evs, 'pop', e.idx) != 'None' or not has(lb, 'pop', 'None'):
                ctx.violate(b.key, p, 'receiver registered without the buffer being observed empty in this critical section', at=e.at)
            if last_outcome(evs, 'next_send', e.idx) != 'None' or not has(lb, 'next_send', 'None'):
                ctx.violate(b.key, p, 'receiver registered without next_send()==None in this critical section', at=e.at)
            if not has(lb, 'sc0', 'F'):
                ctx.violate(b.key, p, 'receiver registered without checking that a sender is left (send_count!=0) in this critical section', at=e.at)
            t = e.data['args'][0]
            r = signal_of_terminator(t)
            if r is None:
                ctx.violate(b.key, p, 'push_recv argument is not get_terminator() of a signal', at=e.at)
                continue
            if is_poll(b):
                pl = r[1]
                if not (pl[0] == 'pfield' and pl[2] == 'sig'):
                    ctx.violate(b.key, p, 'future registers a signal that is not its own `sig` field', at=e.at)
                regs = [x for x in evs if x.name == 'SIG.register_waker' and x.idx < e.idx and x.sec == e.sec]
                if not regs and not sem.waker_kept(evs, e.idx):
                    # (a stream that kept its signal may skip the registration when the stored waker already wakes this task)
                    ctx.violate(b.key, p, 'future registered without register_waker(cx.waker()) earlier in the same critical section', at=e.at)
                elif regs:
                    w = regs[-1].data['args'][1] if len(regs[-1].data['args']) > 1 else None
                    if w is None or not (w[0] == 'call' and w[2] == 'std::task::Context::waker'):
                        ctx.violate(b.key, p, 'registered waker is not cx.waker()', at=regs[-1].at)
            else:
                snap = r[2] if len(r) > 2 else None
                if snap is None or not (snap[0] == 'call' and snap[2] == 'signal::Signal::new_sync'):
                    ctx.violate(b.key, p, 'registered signal is not a Signal::new_sync created in this body', at=e.at)
                else:
                    ptr = snap[3][0]
                    ok = False
                    if ptr[0] == 'call' and ptr[2] in ('pointer::KanalPtr::new_write_address_ptr', 'pointer::KanalPtr::new_from') and ptr[3]:
                        a = ptr[3][0]
                        if a[0] == 'call' and a[2] == 'std::mem::MaybeUninit::as_mut_ptr' and a[3]:
                            ss = fam.ref_snapshot(a[3][0])
                            ok = ss is not None and ss[0] == 'call' and ss[2] == 'std::mem::MaybeUninit::uninit'
                    if not ok:
                        ctx.violate(b.key, p, 'registered signal does not point at the receiver\'s own uninitialised slot: %s' % fmt(ptr), at=e.at)


def own_slot_reads(evs):
    out = []
    for e in evs:
        if e.name in ('SLOT.assume_init', 'SIG.assume_init', 'FUT.read_local_data', 'SLOT.assume_init_read'):
            out.append(e)
    return out


def delivered_value(shape):
    """the T value inside Ok(v) / Ok(Some(v)) / Ready(Ok(v)) or None"""
    if shape is None:
        return None
    if shape[0] == 'Ready':
        return delivered_value(shape[1]) if shape[1] else None
    if shape[0] == 'Ok':
        v = shape[1]
        if v is None:
            return None
        if v[0] == 'agg' and v[1].endswith('Option'):
            if v[2] == 'Some':
                return v[3][0]
            return None
        return v
    return None


@rule('R7', ['C01', 'C04', 'C14', 'C18', 'C09', 'C05', 'C13'], 'result truth of receives: every returned value has exactly one producer, nothing taken is dropped silently')
def r7(ctx):
    for b, p, evs in recv_paths(ctx):
        if is_drain(b):
            continue
        shape = fam.final_ret(p, evs)
        rk = fam.success_kind(shape)
        v = delivered_value(shape)
        pops = [e for e in evs if e.name == 'Q.pop_front']
        sigr = [e for e in evs if e.name == 'SIGRECV']
        slots = own_slot_reads(evs)
        ctx.oblige(1, sample='%s [%s] -> %s' % (b.key, p.signature(), rk))
        ctx.instance('%s path' % b.key)
        producers = []
        for e in pops:
            if v is not None and v == some_payload(e.data['res']):
                producers.append(e)
        for e in sigr:
            if v is not None and v == e.data['res']:
                producers.append(e)
        for e in slots:
            if v is not None and v == e.data['res']:
                producers.append(e)
        if rk == 'value':
            if len(producers) != 1:
                ctx.violate(b.key, p, 'returned value has %d recognised producers (queue pop, direct receive from an owned sender, own slot after a successful wait): %s' % (len(producers), fmt(v)))
            for e in slots:
                if e in producers:
                    # must be after a successful wait
                    before = [x for x in evs if x.idx < e.idx and x.name == 'BR' and x.data['label'] == 'waitOK']
                    if not before or before[-1].data['outcome'] != 'T':
                        ctx.violate(b.key, p, 'own slot read without a preceding successful wait (uninitialised read)', at=e.at)
                    regs = [x for x in evs if x.name == 'PUSH_RECV' and x.idx < e.idx]
                    if not regs and not is_poll(b):
                        ctx.violate(b.key, p, 'own slot read although the receiver never registered', at=e.at)
        else:
            if slots:
                ctx.violate(b.key, p, 'own slot read on a path that returns %s' % rk, at=slots[0].at)
            if rk in ('ok', 'refused', '?'):
                ctx.violate(b.key, p, 'unrecognised receive result shape %s' % (shape,))
        # each taken value is returned or put back into the buffer (refill)
        for e in pops:
            got = [x for x in evs if x.name == 'BR' and x.data['label'] == 'pop' and x.idx > e.idx]
            if got and got[0].data['outcome'] == 'Some':
                pay = some_payload(e.data['res'])
                if not (v is not None and v == pay):
                    ctx.violate(b.key, p, 'element dequeued from the buffer is not the value returned (lost message)', at=e.at)
        for e in sigr:
            res = e.data['res']
            used = (v is not None and v == res) or any(x.name == 'Q.push_back' and x.data['args'] and x.data['args'][0] == res for x in evs)
            if not used:
                ctx.violate(b.key, p, 'value received from a blocked sender is neither returned nor appended to the buffer (lost message)', at=e.at)
        # Ok(None) must not have consumed anything
        if shape and shape[0] == 'Ok' and shape[1] is not None and shape[1][0] == 'agg' and shape[1][2] == 'None':
            if sigr or any(x.name == 'BR' and x.data['label'] == 'pop' and x.data['outcome'] == 'Some' for x in evs):
                ctx.violate(b.key, p, 'Ok(None) returned although a value was taken')
            lb = labels(evs)
            if not (has(lb, 'trylocked', 'None') or (has(lb, 'pop', 'None') and no_blocked_sender(evs, 10 ** 9) and has(lb, 'sc0', 'F'))):
                ctx.violate(b.key, p, 'Ok(None) without (buffer empty, no blocked sender, senders alive) or a failed try-lock')
        if rk == 'pending':
            if not any(x.name == 'PUSH_RECV' for x in evs):
                ctx.violate(b.key, p, 'Pending returned from the Zero arm without registration')


@rule('R8', ['C13'], 'timed receive: Timeout only when late before registering, or after expiry and successful cancel')
def r8(ctx):
    for b, p, evs in recv_paths(ctx):
        wts = [e for e in evs if e.name == 'SIG.wait_timeout']
        for w in wts:
            ctx.oblige(1)
            ctx.instance('%s wait_timeout' % b.key)
            dl = w.data['args'][1] if len(w.data['args']) > 1 else None
            nows = [e for e in evs if e.name == 'NOW' and e.idx < w.idx]
            regs = [e for e in evs if e.name == 'PUSH_RECV' and e.idx < w.idx]
            ok = any(dl is not None and contains(dl, n.data['res']) and (not regs or n.idx < regs[0].idx) for n in nows)
            dur_ok = any('Duration' in b.locals[i]['ty'] and dl is not None and contains(dl, ('param', i)) for i in range(1, b.arg_count + 1))
            # (a `recv_deadline(deadline: Instant)` variant: the caller's instant IS the deadline)
            given = any(b.locals[i]['ty'] == 'std::time::Instant' and dl == ('param', i) for i in range(1, b.arg_count + 1))
            if not given and (not ok or not dur_ok):
                ctx.violate(b.key, p, 'wait_timeout deadline is not Instant::now()+duration evaluated before registration', at=w.at)
        # an unbounded wait after the timed wait is allowed only once the cancel attempt (under the blocking lock)
        # has FAILED, i.e. a peer owns the waiter and will finish shortly; otherwise the deadline is ignored
        for w in wts:
            later = [e for e in evs if e.name == 'SIG.wait' and e.idx > w.idx]
            for lw in later:
                ctx.oblige(1)
                between = [(e.data['label'], e.data['outcome']) for e in evs if e.name == 'BR' and w.idx < e.idx < lw.idx]
                if ('cancel', 'F') not in between:
                    ctx.violate(b.key, p, 'after the timed wait expired the operation falls into an unbounded wait without a failed cancel attempt in between (it stays registered past its deadline and never reports Timeout)', at=lw.at)
                if ('trylocked', 'None') in between or ('trylocked', 'Some') in between:
                    ctx.violate(b.key, p, 'the post-deadline cancel uses a try-lock: when the lock is busy the waiter is not removed', at=lw.at)
        rk = fam.success_kind(fam.final_ret(p, evs))
        if rk == 'err:Timeout':
            ctx.oblige(1, sample='%s Timeout path [%s]' % (b.key, p.signature()))
            regs = [e for e in evs if e.name == 'PUSH_RECV']
            lb = labels(evs)
            if not regs:
                if not is_late(lb):
                    ctx.violate(b.key, p, 'Timeout returned before registering without `Instant::now() > deadline`')
                # and nothing was available
                if not (has(lb, 'pop', 'None') and has(lb, 'next_send', 'None')):
                    ctx.violate(b.key, p, 'Timeout returned although the buffer / blocked senders were not found empty')
                continue
            after = regs[-1].idx
            seq = [(e.data['label'], e.data['outcome'], e) for e in evs if e.idx > after and e.name == 'BR']
            wt_f = [x for x in seq if x[0] == 'waitOK' and x[1] == 'F' and x[2].data['val'][0] == 'call' and x[2].data['val'][2] == 'signal::Signal::wait_timeout']
            canc_t = [x for x in seq if x[0] == 'cancel' and x[1] == 'T']
            if not wt_f:
                ctx.violate(b.key, p, 'Timeout returned without wait_timeout() having returned false')
            if not canc_t:
                ctx.violate(b.key, p, 'Timeout returned without a successful cancel_recv_signal (a later sender could write into the dead frame)')
            else:
                c = canc_t[-1][2]
                # the section is that of the cancel CALL (the guard may be a temporary released before the branch)
                calls_ = [e for e in evs if e.name == 'CANCEL_RECV' and e.idx < c.idx]
                if calls_:
                    c = calls_[-1]
                if c.sec is None or c.sec == regs[-1].sec:
                    ctx.violate(b.key, p, 'cancel_recv_signal not evaluated in its own later critical section', at=c.at)


@rule('R9', ['C19', 'C14', 'C02', 'C01'], 'drain_into: count, order, completeness, single section')
def r9(ctx):
    n_bodies = 0
    for b in fam.recv_bodies(ctx):
        if not is_drain(b):
            continue
        n_bodies += 1
        vi = vec_param(b)
        ctx.instance('%s' % b.key)
        ps = ctx.paths(b) or []
        for p in ps:
            if p.end != 'return':
                continue
            evs = ctx.sem(p)
            rk = fam.success_kind(fam.final_ret(p, evs))
            shape = fam.final_ret(p, evs)
            ctx.oblige(1, sample='%s [%s]' % (b.key, p.signature()))
            # (e) single section
            locks = [e for e in evs if e.name in ('LOCK', 'TRYLOCK')]
            if len(locks) != 1:
                ctx.violate(b.key, p, 'drain_into uses %d critical sections (must be one)' % len(locks))
            # (d) vec whitelist
            for e in evs:
                if e.name == 'CALL' and e.data['callee'].startswith(VEC):
                    m = e.data['callee'][len(VEC):]
                    if m not in ('len', 'capacity', 'reserve', 'push', 'reserve_exact', 'try_reserve', 'spare_capacity_mut'):
                        ctx.violate(b.key, p, 'drain_into applies Vec::%s to the caller\'s vector (previous contents must stay untouched)' % m, at=e.at)
                if e.name == 'WRMEM' and contains(e.data['place'], ('param', vi)):
                    ctx.violate(b.key, p, 'drain_into writes into the caller\'s vector directly', at=e.at)
            if rk.startswith('err'):
                if any(e.name in ('Q.pop_front', 'NEXT_SEND', 'SIGRECV') for e in evs):
                    ctx.violate(b.key, p, 'drain_into fails after taking values')
                if any(e.name == 'CALL' and e.data['callee'] == VEC + 'push' for e in evs):
                    ctx.violate(b.key, p, 'drain_into fails after appending to the vector')
                continue
            for e in evs:
                if e.name == 'WL.drain_senders' and e.data['vec'] != ('param', vi):
                    ctx.violate(b.key, p, 'the blocked senders are drained into something other than the caller\'s vector', at=e.at)
                if e.name == 'Q.drain_all' and e.data['vec'] != ('param', vi):
                    ctx.violate(b.key, p, 'the buffer is drained into something other than the caller\'s vector', at=e.at)
            # (b) queue loop
            pops = [e for e in evs if e.name == 'Q.pop_front']
            if not pops:
                ctx.violate(b.key, p, 'drain_into succeeds without looking at the buffer')
                continue
            pushes = [e for e in evs if e.name == 'CALL' and e.data['callee'] == VEC + 'push']
            pushed_vals = [e.data['args'][1] if len(e.data['args']) > 1 else None for e in pushes]
            for e in pushes:
                if not e.data['args'] or e.data['args'][0] != ('param', vi):
                    ctx.violate(b.key, p, 'Vec::push on something that is not the caller\'s vector', at=e.at)
            popbr = [e for e in evs if e.name == 'BR' and e.data['label'] == 'pop']
            if not popbr or popbr[-1].data['outcome'] != 'None':
                ctx.violate(b.key, p, 'buffer loop is left without observing pop_front()==None (elements may be left behind)')
            # expected appends, in event order: each dequeued element, and each blocked sender's value that is delivered directly.
            # A sender's value that is appended to the buffer tail instead (the refill step of `try_recv`, rule R2 demands that an
            # element was just dequeued) reaches the vector later as a dequeued element.
            refilled = set()
            for e in evs:
                if e.name == 'SIGRECV' and any(x.name == 'Q.push_back' and x.data['args'] and x.data['args'][0] == e.data['res']
                                               and x.sec == e.sec for x in evs):
                    refilled.add(e.data['res'])
            order = []
            for e in evs:
                if e.name == 'Q.pop_front':
                    got = [x for x in evs if x.name == 'BR' and x.data['label'] == 'pop' and x.idx > e.idx]
                    if got and got[0].data['outcome'] == 'Some':
                        order.append((e.idx, some_payload(e.data['res'])))
                elif e.name == 'SIGRECV' and e.data['res'] not in refilled:
                    order.append((e.idx, e.data['res']))
            order = [v for _, v in sorted(order, key=lambda t: t[0])]
            nexts = [e for e in evs if e.name == 'NEXT_SEND']
            if not nexts:
                ctx.violate(b.key, p, 'drain_into succeeds without looking at the blocked senders')
            nsbr = [e for e in evs if e.name == 'BR' and e.data['label'] == 'next_send']
            if nexts and (not nsbr or nsbr[-1].data['outcome'] != 'None'):
                ctx.violate(b.key, p, 'blocked-sender loop is left without observing next_send()==None (senders may be left behind)')
            if nexts and popbr:
                # a sender whose value goes straight to the vector is taken only when the buffer was just observed empty
                for n in nexts:
                    got = [x for x in evs if x.name == 'BR' and x.data['label'] == 'next_send' and x.idx > n.idx]
                    if not (got and got[0].data['outcome'] == 'Some'):
                        continue
                    pay = some_payload(n.data['res'])
                    sr = [x for x in evs if x.name == 'SIGRECV' and x.data['args'][0] == pay]
                    if sr and sr[0].data['res'] in refilled:
                        continue
                    if last_outcome(evs, 'pop', n.idx) != 'None':
                        ctx.violate(b.key, p, 'blocked senders are taken before the buffer is exhausted (order)', at=n.at)
                        break
                if not [e for e in popbr if e.data['outcome'] == 'None']:
                    ctx.violate(b.key, p, 'blocked senders are taken before the buffer is exhausted (order)', at=nexts[0].at)
            if pushed_vals != order:
                ctx.violate(b.key, p, 'values appended to the vector (%d) are not exactly the dequeued elements followed by the blocked senders\' values, in order (%d)' % (len(pushed_vals), len(order)))
            # (a) count
            cnt = shape[1] if shape and shape[0] == 'Ok' else None
            if not count_ok(cnt, evs, vi, pops):
                ctx.violate(b.key, p, 'returned count is not queue.len() + (recv_blocking ? 0 : wait_list.len()) read before draining, nor the vector growth: %s' % fmt(cnt))
    exp = 2 if ctx.has_async() else 1
    if n_bodies < exp:
        ctx.violate('<crate>', None, 'anchor missing: %d drain_into bodies, expected %d' % (n_bodies, exp), sig='floor')


def count_ok(cnt, evs, vi, pops):
    if cnt is None:
        return False
    # `a.saturating_add(b)` / `a.wrapping_add(b)` of two lengths of live collections is `a + b` (each is at most isize::MAX);
    # `after.saturating_sub(before)` of a vector that only grew is `after - before`
    if cnt[0] == 'call' and len(cnt) > 3 and len(cnt[3]) == 2:
        if cnt[2] in ('core::num::saturating_add', 'core::num::wrapping_add'):
            cnt = ('bin', 'Add', cnt[3][0], cnt[3][1])
        elif cnt[2] in ('core::num::saturating_sub', 'core::num::wrapping_sub'):
            cnt = ('bin', 'Sub', cnt[3][0], cnt[3][1])
    first_pop = pops[0].idx if pops else 10 ** 9
    qlen = [e for e in evs if e.name == 'Q.len' and e.idx < first_pop]
    wlen = [e for e in evs if e.name == 'WL.len' and e.idx < first_pop]
    lb = labels(evs)
    # form 1: Add(Q.len, X) with X = WL.len under recv_blocking:F, const 0 under recv_blocking:T
    if cnt[0] == 'bin' and cnt[1] == 'Add':
        a, b = cnt[2], cnt[3]
        for x, y in ((a, b), (b, a)):
            if any(x == q.data['res'] for q in qlen):
                if has(lb, 'recv_blocking', 'T') and not has(lb, 'recv_blocking', 'F'):
                    if y[0] == 'const' and y[2] == '0':
                        return True
                if has(lb, 'recv_blocking', 'F') and not has(lb, 'recv_blocking', 'T'):
                    if any(y == w.data['res'] for w in wlen):
                        return True
        return False
    # form 2: vec.len() after - vec.len() before
    if cnt[0] == 'bin' and cnt[1] == 'Sub':
        a, b = cnt[2], cnt[3]
        lens = [e for e in evs if e.name == 'CALL' and e.data['callee'] == VEC + 'len']
        if lens and a == lens[-1].data['res'] and b == lens[0].data['res'] and lens[0].idx < first_pop and lens[-1].idx > first_pop:
            return True
    return False


@rule('R10', ['C03', 'C07', 'C13', 'C15'], 'receive: one critical section per logical step; a registered sync receiver stays until released, cancelled or terminated')
def r10(ctx):
    for b, p, evs in recv_paths(ctx):
        n = one_section_check(ctx, b, p, evs, 'recv')
        ctx.oblige(1, sample='%s [%s]: %d section(s)' % (b.key, p.signature(), n))
        ctx.instance('%s path' % b.key)
        for e in evs:
            if e.name in ('CANCEL_SEND', 'EXISTS_SEND', 'PUSH_SEND', 'NEXT_RECV', 'SIGSEND'):
                ctx.violate(b.key, p, 'receive-side body uses send-side helper %s' % e.name, at=e.at)
        if is_poll(b):
            continue
        regs = [e for e in evs if e.name == 'PUSH_RECV']
        if not regs:
            continue
        ctx.oblige(1)
        after = regs[-1].idx
        ok = False
        for e in evs:
            if e.idx <= after:
                continue
            if e.name == 'SIG.wait':
                ok = True
            if e.name == 'BR' and (e.data['label'], e.data['outcome']) in (('waitOK', 'T'), ('term', 'T'), ('cancel', 'T')):
                ok = True
        if not ok:
            ctx.violate(b.key, p, 'returns while its signal may still be in the wait list (no wait() / successful wait / termination / successful cancel after push_recv)')
        r = signal_of_terminator(regs[-1].data['args'][0])
        if r is not None and r[1][0] == 'local':
            sl = r[1][1]
            for e in evs:
                if e.idx > after and e.name in ('SIG.wait', 'SIG.wait_timeout', 'SIG.is_terminated', 'CANCEL_RECV', 'SIG.assume_init'):
                    a = e.data['args'][0] if e.data['args'] else None
                    if a is None or a[0] not in ('ref', 'rawptr') or a[1] != r[1]:
                        ctx.violate(b.key, p, '%s applied to a signal other than the registered one' % e.name, at=e.at)
            if len(r[1]) > 2:
                continue  # the signal lives in a spliced callee (a wrapper delegating to another entry point): checked there
            for bi, blk in enumerate(b.blocks):
                if blk['cleanup']:
                    continue
                ops = []
                for s in blk['stmts']:
                    if s['k'] == 'assign':
                        ops += operands_of_rvalue(s['rv'])
                t = blk['term']
                if t['k'] == 'call':
                    ops += t['args']
                for o in ops:
                    if o.get('k') in ('move', 'copy') and o['p']['l'] == sl and not o['p']['p']:
                        ctx.violate(b.key, p, 'the registered signal local is moved by value (its address is in the wait list)', at=t.get('at'))
            # the slot too must not move: own slot read is via assume_init(move slot) AFTER the wait - allowed
