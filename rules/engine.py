"""Rule registry, contexts, violations, evidence, known findings."""
import hashlib
import json
import os
import time

import mir
import sem

VERIF = os.path.dirname(os.path.dirname(os.path.abspath(__file__)))

RULES = {}  # id -> RuleDef


class RuleDef:
    def __init__(self, rid, props, title, fn, configs=None, needs_async=False, skip_std_mutex=False):
        self.id = rid
        self.props = props
        self.title = title
        self.fn = fn
        self.needs_async = needs_async
        self.skip_std_mutex = skip_std_mutex


def rule(rid, props, title, needs_async=False, skip_std_mutex=False):
    def deco(fn):
        RULES[rid] = RuleDef(rid, props, title, fn, needs_async=needs_async, skip_std_mutex=skip_std_mutex)
        return fn
    return deco


class Violation:
    def __init__(self, rule, fn, sig, reason, at=None, detail=None, config=None):
        self.rule = rule
        self.fn = fn
        self.sig = sig or ''
        self.reason = reason
        self.at = at
        self.detail = detail or {}
        self.config = config

    def key(self, prop):
        return '%s:%s:%s:[%s]' % (prop, self.rule, self.fn, self.sig)

    def gkey(self):
        return '%s:%s:[%s]:%s' % (self.rule, self.fn, self.sig, self.reason)


class RuleCtx:
    """what a rule sees: the facts of one configuration, the loop bound, collectors"""

    def __init__(self, facts, k, ruledef):
        self.facts = facts
        self.k = k
        self.rule = ruledef
        self.config = facts.config
        self.instances = []
        self.obligations = 0
        self.violations = []
        self.samples = []
        self.notes = []
        self.paths_visited = 0
        self.bodies_visited = set()

    # --- access ---
    def body(self, key):
        return self.facts.body(key)

    def paths(self, body):
        ps = body.paths(self.k)
        self.bodies_visited.add(body.key)
        if ps is None:
            return None
        res = [p for p in ps if p.end != 'unreachable']
        self.paths_visited += len(res)
        return res

    def sem(self, path):
        if not hasattr(path, '_sem'):
            path._sem = sem.project(path)
        return path._sem

    def has_async(self):
        return 'async' in self.facts.features

    def std_mutex(self):
        return 'std-mutex' in self.facts.features

    # --- collectors ---
    def instance(self, desc):
        self.instances.append(desc)

    def oblige(self, n=1, sample=None):
        self.obligations += n
        if sample is not None and len(self.samples) < 6:
            self.samples.append(sample)

    def violate(self, fn, path, reason, at=None, detail=None, sig=None):
        if path is not None and sig is None:
            sig = path.signature()
        d = dict(detail or {})
        if path is not None:
            d.setdefault('blocks', path.blocks)
            d.setdefault('events', [repr(e) for e in self.sem(path)][:200])
            if at is None:
                for e in reversed(path.events):
                    if e.at:
                        at = e.at
                        break
        self.violations.append(Violation(self.rule.id, fn, sig, reason, at, d, self.config))

    def note(self, s):
        self.notes.append(s)


# ---------------------------------------------------------------------------------------------
# floors
# ---------------------------------------------------------------------------------------------

def load_floors():
    p = os.path.join(VERIF, 'rules', 'floors.json')
    if os.path.exists(p):
        return json.load(open(p))
    return {}


def load_known():
    p = os.path.join(VERIF, 'known_findings.json')
    if os.path.exists(p):
        return json.load(open(p)).get('findings', [])
    return []


def run_rule(rid, facts, k):
    rd = RULES[rid]
    ctx = RuleCtx(facts, k, rd)
    if rd.needs_async and 'async' not in facts.features:
        ctx.note('skipped: configuration has no async feature')
        return ctx
    if rd.skip_std_mutex and 'std-mutex' in facts.features:
        ctx.note('skipped: std-mutex replaces the spin lock in this configuration')
        return ctx
    rd.fn(ctx)
    floors = load_floors()
    fl = floors.get(rid, {}).get(facts.config) if isinstance(floors.get(rid), dict) else None
    if fl is not None and len(set(ctx.instances)) < fl:
        ctx.violations.append(Violation(rid, '<crate>', 'floor', 'anchor missing: %d distinct rule instances matched, %d confirmed on the pinned tree' % (
            len(set(ctx.instances)), fl), None, {'instances': sorted(set(ctx.instances))}, facts.config))
    return ctx


def keyhash(s):
    return hashlib.sha1(s.encode()).hexdigest()[:12]
