"""Path enumeration, per-path def-use resolution and event projection over kfacts MIR.

Nothing here executes kanal code.  A *path* is a sequence of basic blocks entry -> return (or ->
a diverging call) that follows no unwind edge.  Along one path every temporary has exactly one
reaching definition, so operands are resolved to expression trees by substitution.  The only values
that are evaluated are constants (in practice: the boolean drop flags introduced by drop
elaboration), which prunes infeasible `switchInt` edges.  No solver is involved.

Value trees (tuples):
  ('param', n)                       initial value of local n (argument, or never assigned on path)
  ('const', ty, val)                 val is a decimal string for ints/bools, else the debug string
  ('fnptr', name)                    a function item used as a value
  ('call', id, name, args)           result of the id-th call event on this path
  ('ref', place) / ('rawptr', place) address-of (reborrows `&*v` collapse to v)
  ('bin', op, a, b) ('un', op, a) ('cast', kind, v, ty)
  ('agg', name, variant, fields)     struct / enum / tuple construction
  ('discr', v)                       discriminant of v
  ('load', place, t)                 read through a pointer at event time t
  ('field', v, name) ('downcast', v, variant)
  ('ci', G)                          &ChannelInternal obtained by deref of the guard value G
Place trees:
  ('local', n) ('deref', v) ('pfield', place, name) ('pdown', place, variant) ('pindex', place)
"""
import re
import sys

sys.setrecursionlimit(10000)

MAX_PATHS = 60000
PROMOTED_RE = re.compile(r'promoted: Some\(promoted\[(\d+)\]\)')


def canon(path):
    """strip generic argument lists `::<...>` and `<...>` after type names from a def path"""
    out = []
    depth = 0
    i = 0
    n = len(path)
    while i < n:
        c = path[i]
        if depth == 0 and path.startswith('::<', i):
            depth = 1
            i += 3
            continue
        if c == '<' and depth > 0:
            depth += 1
        elif c == '>' and depth > 0:
            depth -= 1
        elif depth == 0:
            out.append(c)
        i += 1
    return ''.join(out)


class Event:
    __slots__ = ('kind', 'idx', 'name', 'args', 'val', 'place', 'label', 'outcome', 'at', 'bb',
                 'fn', 'extra', 'taken')

    def __init__(self, kind, **kw):
        self.kind = kind
        for s in self.__slots__[1:]:
            setattr(self, s, kw.get(s))

    def __repr__(self):
        if self.kind == 'call':
            return 'call#%s %s' % (self.idx, self.name)
        if self.kind == 'br':
            return 'br %s=%s' % (self.label, self.outcome)
        return '%s %s' % (self.kind, self.place if self.place is not None else self.val)


class Path:
    def __init__(self, body, blocks, events, end):
        self.body = body
        self.blocks = blocks
        self.events = events
        self.end = end  # 'return' | 'panic' | 'unreachable'
        self.ret = None
        for e in events:
            if e.kind == 'ret':
                self.ret = e.val

    def calls(self, *names):
        return [e for e in self.events if e.kind == 'call' and (not names or e.name in names)]

    def brs(self):
        return [e for e in self.events if e.kind == 'br' and e.label is not None]

    def signature(self):
        return ','.join('%s:%s' % (e.label, e.outcome) for e in self.brs())


def short_ty(t):
    return t


class Body:
    def __init__(self, j, facts):
        self.j = j
        self.facts = facts
        self.key = j['key']
        self.blocks = j['blocks']
        self.locals = j['locals']
        self.arg_count = j['arg_count']
        self.span = j['span']
        self._paths = {}

    # ---------------- graph helpers (non-unwinding CFG) ----------------
    def succs(self, b):
        t = self.blocks[b]['term']
        k = t['k']
        if k == 'goto':
            return [t['target']]
        if k == 'switch':
            out = []
            for _, tb in t['targets']:
                if tb not in out:
                    out.append(tb)
            if t['otherwise'] not in out:
                out.append(t['otherwise'])
            return out
        if k in ('call', 'drop', 'assert'):
            return [t['target']] if t.get('target') is not None else []
        return []

    def reachable(self, start=0, removed_edges=()):
        seen = {start}
        st = [start]
        while st:
            b = st.pop()
            for s in self.succs(b):
                if (b, s) in removed_edges:
                    continue
                if s not in seen:
                    seen.add(s)
                    st.append(s)
        return seen

    def normal_blocks(self):
        return sorted(self.reachable(0))

    def live_blocks(self):
        """blocks reachable when switches on compile-time constants take only their feasible edge
        (`if cfg!(debug_assertions) { .. }` with debug assertions off, `if false`, ...)"""
        if hasattr(self, '_live'):
            return self._live
        # locals assigned exactly once, from a constant
        assigns = {}
        for blk in self.blocks:
            for s in blk['stmts']:
                if s['k'] == 'assign' and not s['lhs']['p']:
                    assigns.setdefault(s['lhs']['l'], []).append(s['rv'])
            t = blk['term']
            if t['k'] == 'call' and not t['dest']['p']:
                assigns.setdefault(t['dest']['l'], []).append(None)
        consts = {}
        for l, rvs in assigns.items():
            if len(rvs) == 1 and rvs[0] is not None and rvs[0]['k'] == 'use' and rvs[0]['o'].get('k') == 'const' and 'val' in rvs[0]['o']:
                consts[l] = rvs[0]['o']['val']
        seen = {0}
        st = [0]
        while st:
            b = st.pop()
            t = self.blocks[b]['term']
            succ = self.succs(b)
            if t['k'] == 'switch':
                o = t['o']
                val = None
                if o.get('k') == 'const' and 'val' in o:
                    val = o['val']
                elif o.get('k') in ('copy', 'move') and not o['p']['p'] and o['p']['l'] in consts:
                    val = consts[o['p']['l']]
                if val is not None:
                    tgt = t['otherwise']
                    for v, tb in t['targets']:
                        if v == val:
                            tgt = tb
                    succ = [tgt]
            for s in succ:
                if s not in seen:
                    seen.add(s)
                    st.append(s)
        self._live = seen
        return seen

    def sccs(self):
        """Tarjan over the non-unwinding CFG restricted to reachable blocks"""
        idx = {}
        low = {}
        st = []
        on = set()
        res = []
        counter = [0]
        nodes = self.normal_blocks()

        def strong(v):
            work = [(v, iter(self.succs(v)))]
            idx[v] = low[v] = counter[0]
            counter[0] += 1
            st.append(v)
            on.add(v)
            while work:
                node, it = work[-1]
                adv = False
                for w in it:
                    if w not in idx:
                        idx[w] = low[w] = counter[0]
                        counter[0] += 1
                        st.append(w)
                        on.add(w)
                        work.append((w, iter(self.succs(w))))
                        adv = True
                        break
                    elif w in on:
                        low[node] = min(low[node], idx[w])
                if adv:
                    continue
                work.pop()
                if work:
                    low[work[-1][0]] = min(low[work[-1][0]], low[node])
                if low[node] == idx[node]:
                    comp = []
                    while True:
                        w = st.pop()
                        on.discard(w)
                        comp.append(w)
                        if w == node:
                            break
                    res.append(comp)

        for v in nodes:
            if v not in idx:
                strong(v)
        return res

    def has_cycle(self):
        for comp in self.sccs():
            if len(comp) > 1:
                return True
            b = comp[0]
            if b in self.succs(b):
                return True
        return False

    def dominators(self):
        nodes = self.normal_blocks()
        preds = {n: [] for n in nodes}
        for n in nodes:
            for s in self.succs(n):
                if s in preds:
                    preds[s].append(n)
        dom = {n: set(nodes) for n in nodes}
        dom[0] = {0}
        changed = True
        while changed:
            changed = False
            for n in nodes:
                if n == 0:
                    continue
                ps = [dom[p] for p in preds[n]]
                new = set.intersection(*ps) if ps else set()
                new = new | {n}
                if new != dom[n]:
                    dom[n] = new
                    changed = True
        return dom

    def all_calls(self):
        """(bb, term) of every call terminator in non-cleanup reachable blocks"""
        out = []
        for b in self.normal_blocks():
            t = self.blocks[b]['term']
            if t['k'] == 'call':
                out.append((b, t))
        return out

    def callee_names(self):
        return [callee_name(t) for _, t in self.all_calls()]

    def callable_refs(self):
        """keys of crate-local functions and closures this body mentions as VALUES (`opt.map_or(d, helper)`, `.then(|| ..)`):
        they run when a combinator or the body itself calls them"""
        if hasattr(self, '_crefs'):
            return self._crefs
        out = []

        def op(o):
            if isinstance(o, dict) and o.get('k') == 'const' and o.get('fn') and o['fn'].get('local'):
                out.append(o['fn']['path'])

        for b in self.normal_blocks():
            blk = self.blocks[b]
            for s in blk['stmts']:
                if s['k'] != 'assign':
                    continue
                rv = s['rv']
                if rv['k'] == 'agg' and rv.get('ak') == 'closure':
                    out.append(rv.get('name'))
                for key in ('o', 'a', 'b'):
                    op(rv.get(key))
                for f in rv.get('fields', []) or []:
                    op(f)
            t = blk['term']
            if t['k'] == 'call':
                for a in t['args']:
                    op(a)
        self._crefs = [x for x in out if x]
        return self._crefs

    # ---------------- path enumeration ----------------
    def paths(self, k=1):
        if k in self._paths:
            return self._paths[k]
        ev = Evaluator(self, k)
        res = ev.run()
        self._paths[k] = res
        return res


def callee_name(t):
    fn = t.get('fn')
    if not fn:
        return '<indirect>'
    return canon(fn['path'])


PURE_PREDS = ('big', 'zst', 'needs_drop')


def const_param_value(v):
    """value of a flag parameter bound by roles.specialise_flags: ['bool', '0'|'1'] or ['enum', adt, variant]"""
    if v[0] == 'bool':
        return ('const', 'bool', v[1])
    return ('agg', canon(v[1]), v[2], (), ())


class State:
    __slots__ = ('env', 'fenv', 'events', 'counter', 'pure', 'visits', 'blocks', 'mem', 'stack', 'body', 'depth', 'decided', 'selfty', 'subst')

    def __init__(self):
        self.env = {}     # local key -> value; key = n at depth 0, (n, depth) inside a spliced callee
        self.fenv = {}
        self.events = []
        self.counter = 0
        self.pure = {}
        self.visits = {}
        self.blocks = []
        self.mem = {}
        self.stack = []   # saved caller frames while a crate-local helper is spliced in
        self.body = None  # body of the current frame (None = the evaluator's root body)
        self.depth = 0
        self.selfty = None  # concrete Self of the provided trait method being spliced, if any
        self.subst = None   # generic parameter name -> concrete type of the generic helper being spliced, if any
        self.decided = {}  # switch discriminant value -> ('eq', v) | ('ne', frozenset(values)) already taken on this path

    def clone(self):
        s = State()
        s.env = dict(self.env)
        s.fenv = dict(self.fenv)
        s.events = list(self.events)
        s.counter = self.counter
        s.pure = dict(self.pure)
        s.visits = dict(self.visits)
        s.blocks = list(self.blocks)
        s.mem = dict(self.mem)
        s.stack = [dict(f, visits=dict(f['visits'])) for f in self.stack]
        s.body = self.body
        s.depth = self.depth
        s.decided = dict(self.decided)
        s.selfty = self.selfty
        s.subst = self.subst
        return s


def try_operand(trycall):
    """the value `x` of `x?` (Try::branch carries its operand type as a pseudo argument)"""
    a = [x for x in trycall[3] if not (isinstance(x, tuple) and x and x[0] == 'targ')]
    return a[0] if a else None


def try_ok_variant(trycall):
    """'Some' for Option::branch, 'Ok' for Result::branch"""
    for x in trycall[3]:
        if isinstance(x, tuple) and x and x[0] == 'targ':
            return 'Ok' if x[1].startswith('std::result::Result<') else 'Some'
    return 'Some'


def peel_bool_source(v, depth=0):
    """for Option/Result values manufactured from a boolean - `b.then_some(x)`, `b.then(|| x)`, `.ok_or(e)` on those -
    the boolean that decides Some/Ok"""
    if depth > 4 or not isinstance(v, tuple) or not v:
        return None
    if v[0] == 'call' and v[2] in ('core::bool::then_some', 'core::bool::then', 'std::bool::then_some', 'std::bool::then') and v[3]:
        return v[3][0]
    if v[0] == 'call' and v[2] in ('std::option::Option::ok_or', 'std::option::Option::ok_or_else') and v[3]:
        return peel_bool_source(v[3][0], depth + 1)
    return None


def lkey(pl):
    """environment key of a ('local', n[, depth]) place"""
    return pl[1] if len(pl) == 2 else (pl[1], pl[2])


# crate-local functions that stay ATOMIC events in their callers' paths: their meaning is pinned by rules of their own
# (H, G, P, M, F8 ...).  Every other crate-local function (a helper somebody extracts tomorrow, in whatever module) is
# spliced into the paths of its callers.
ATOMIC_FUNCS = {
    'internal::acquire_internal', 'internal::try_acquire_internal', 'internal::ChannelInternal::new',
    'internal::ChannelInternal::next_recv', 'internal::ChannelInternal::next_send', 'internal::ChannelInternal::push_send',
    'internal::ChannelInternal::push_recv', 'internal::ChannelInternal::cancel_send_signal',
    'internal::ChannelInternal::cancel_recv_signal', 'internal::ChannelInternal::send_signal_exists',
    'internal::ChannelInternal::recv_signal_exists', 'internal::ChannelInternal::terminate_signals',
    'signal::Signal::new_sync', 'signal::Signal::new_async', 'signal::Signal::new_async_ptr', 'signal::Signal::wait',
    'signal::Signal::wait_timeout', 'signal::Signal::poll', 'signal::Signal::async_blocking_wait',
    'signal::Signal::is_terminated', 'signal::Signal::register_waker', 'signal::Signal::set_ptr', 'signal::Signal::will_wake',
    'signal::Signal::assume_init', 'signal::Signal::load_and_drop', 'signal::Signal::get_terminator', 'signal::Signal::send',
    'signal::Signal::recv', 'signal::Signal::terminate', 'signal::Signal::wake', 'signal::Signal::send_copy',
    'signal::SignalTerminator::send', 'signal::SignalTerminator::recv', 'signal::SignalTerminator::terminate',
    'signal::SignalTerminator::send_copy',
    'pointer::KanalPtr::new_from', 'pointer::KanalPtr::new_owned', 'pointer::KanalPtr::new_write_address_ptr',
    'pointer::KanalPtr::new_unchecked', 'pointer::KanalPtr::read', 'pointer::KanalPtr::write', 'pointer::KanalPtr::copy',
    'pointer::store_as_kanal_ptr',
    'future::FutureState::is_waiting', 'future::FutureState::is_done', 'future::SendFuture::new', 'future::ReceiveFuture::new_ref',
    'future::ReceiveStream::new_borrowed', 'future::SendFuture::read_local_data', 'future::SendFuture::drop_local_data',
    'future::ReceiveFuture::read_local_data', 'future::ReceiveFuture::drop_local_data',
    'mutex::RawMutexLock::lock_no_inline',
    'backoff::spin_cond', 'backoff::get_parallelism', 'backoff::sleep', 'backoff::yield_now', 'backoff::yield_now_std',
    'backoff::spin_wait', 'backoff::spin_hint', 'backoff::random_u7', 'backoff::random_u32', 'backoff::randomize',
}
MAX_INLINE_DEPTH = 5


STATE_PREDS = ('rc0', 'sc0', 'room', 'full_eq', 'qempty', 'cap_max', 'cap0', 'recv_blocking', 'is_stream', 'terminated', 'both0')
PTR_WRITERS = ('std::mem::replace', 'std::mem::swap', 'std::mem::take', 'std::ptr::write', 'std::ptr::swap', 'std::ptr::replace',
               'std::ptr::copy_nonoverlapping', 'std::ptr::copy', 'std::ptr::drop_in_place', 'std::option::Option::take',
               'std::option::Option::replace', 'std::option::Option::insert', 'std::option::Option::get_or_insert_with',
               'std::mem::MaybeUninit::write', 'std::cell::UnsafeCell::get_mut')
HANDLE_NAMES = ('Sender', 'Receiver', 'AsyncSender', 'AsyncReceiver')


def inlinable(body):
    """may a call to this crate-local function be spliced into the caller's paths?"""
    j = body.j
    if j.get('def_kind') not in ('Fn', 'AssocFn'):
        return False
    if j.get('impl_trait'):
        # trait methods are entry points of their own, except the handles' Clone impls, which other members of the clone
        # family may be written in terms of (`clone_async` = `self.clone().to_async()`)
        tr = str(j.get('impl_trait'))
        local_trait = not tr.startswith(('std::', 'core::', 'alloc::', 'futures_core::', 'lock_api::'))
        if canon(tr) == 'std::convert::From' and j.get('def_kind') == 'AssocFn':
            pass  # a crate-local conversion: no entry point of its own, it runs wherever `from` / `into` is written
        elif not local_trait and not (canon(tr).endswith('Clone') and any(body.key.startswith('<%s<T> as ' % h) for h in HANDLE_NAMES)):
            return False
    if canon(body.key) in ATOMIC_FUNCS:
        return False
    return True


def nominally_public_only(body):
    """`pub fn` that nobody outside the crate can name (a `pub` item of a private module that is not re-exported, a `pub fn` in an
    impl of such a type): rustc's effective visibility, emitted by the driver as `reachable`"""
    j = body.j
    return j.get('vis') == 'Public' and j.get('reachable') is False and not j.get('impl_trait')


def private_helper(body):
    """a non-public, non-summarised function: analysed only through the callers it is spliced into"""
    return inlinable(body) and (body.j.get('vis') != 'Public' or nominally_public_only(body))


class TooManyPaths(Exception):
    pass


OPT = 'std::option::Option'
RES = 'std::result::Result'
OPT_VARIANTS = (('None', '0'), ('Some', '1'))
RES_VARIANTS = (('Ok', '0'), ('Err', '1'))


VARIANT_CTORS = {OPT + '::Some': (OPT, 'Some'), RES + '::Ok': (RES, 'Ok'), RES + '::Err': (RES, 'Err'),
                 'std::task::Poll::Ready': ('std::task::Poll', 'Ready'), 'std::prelude::v1::Some': (OPT, 'Some'),
                 'std::prelude::v1::Ok': (RES, 'Ok'), 'std::prelude::v1::Err': (RES, 'Err')}


def wrap_value(w, rv):
    if w == 'Some':
        return ('agg', OPT, 'Some', (rv,), ())
    if w in ('Ok', 'Err'):
        return ('agg', RES, w, (rv,), ())
    if w == 'Ready':
        return ('agg', 'std::task::Poll', 'Ready', (rv,), ())
    return rv


# higher-order combinators written instead of `match`: name -> (kind of receiver, {variant: action})
# actions: ('f', i, wrap)  call argument i with the payload, wrap the result;  ('f0', i, wrap) call argument i with no
# argument;  ('pay', wrap) the payload itself (wrapped);  ('arg', i) argument i as it is;  ('same',) the receiver unchanged;
# ('none',) Option::None;  ('bool', b)
COMBINATORS = {
    OPT + '::map': ('opt', {'Some': ('f', 1, 'Some'), 'None': ('none',)}),
    OPT + '::and_then': ('opt', {'Some': ('f', 1, None), 'None': ('none',)}),
    OPT + '::map_or': ('opt', {'Some': ('f', 2, None), 'None': ('arg', 1)}),
    OPT + '::map_or_else': ('opt', {'Some': ('f', 2, None), 'None': ('f0', 1, None)}),
    OPT + '::unwrap_or_else': ('opt', {'Some': ('pay', None), 'None': ('f0', 1, None)}),
    OPT + '::unwrap_or': ('opt', {'Some': ('pay', None), 'None': ('arg', 1)}),
    OPT + '::ok_or_else': ('opt', {'Some': ('pay', 'Ok'), 'None': ('f0', 1, 'Err')}),
    OPT + '::is_some_and': ('opt', {'Some': ('f', 1, None), 'None': ('bool', False)}),
    OPT + '::or_else': ('opt', {'Some': ('same',), 'None': ('f0', 1, None)}),
    RES + '::map': ('res', {'Ok': ('f', 1, 'Ok'), 'Err': ('same',)}),
    RES + '::map_err': ('res', {'Ok': ('same',), 'Err': ('f', 1, 'Err')}),
    RES + '::and_then': ('res', {'Ok': ('f', 1, None), 'Err': ('same',)}),
    RES + '::unwrap_or_else': ('res', {'Ok': ('pay', None), 'Err': ('f', 1, None)}),
    RES + '::map_or': ('res', {'Ok': ('f', 2, None), 'Err': ('arg', 1)}),
    RES + '::map_or_else': ('res', {'Ok': ('f', 2, None), 'Err': ('f', 1, None)}),
    RES + '::ok': ('res', {'Ok': ('pay', 'Some'), 'Err': ('none',)}),
    RES + '::is_ok': ('res', {'Ok': ('bool', True), 'Err': ('bool', False)}),
    RES + '::is_err': ('res', {'Ok': ('bool', False), 'Err': ('bool', True)}),
    'std::task::Poll::map': ('poll', {'Ready': ('f', 1, 'Ready'), 'Pending': ('same',)}),
}
POLL_VARIANTS = (('Ready', '0'), ('Pending', '1'))


class Evaluator:
    def __init__(self, body, k):
        self.body = body
        self.k = k
        self.out = []
        self.truncated = False

    def run(self):
        st = State()
        for n, v in (self.body.j.get('const_params') or {}).items():
            st.env[int(n)] = const_param_value(v)
        work = [(0, st)]
        try:
            while work:
                b, st = work.pop()
                self.step(b, st, work)
        except TooManyPaths:
            self.truncated = True
            return None
        return self.out

    # ----- value construction -----
    def place(self, st, p):
        """MIR place json -> place tree (resolving the base local when it is deref'ed)"""
        cur = ('local', p['l']) if st.depth == 0 else ('local', p['l'], st.depth)
        for el in p['p']:
            if el == '*':
                v = self.read_place(st, cur, None)
                if v[0] in ('ref', 'rawptr'):
                    cur = v[1]
                else:
                    cur = ('deref', v)
            elif isinstance(el, dict) and 'f' in el:
                cur = ('pfield', cur, el['f'])
            elif isinstance(el, dict) and 'dc' in el:
                cur = ('pdown', cur, el['dc'])
            else:
                cur = ('pindex', cur)
        return cur

    def read_place(self, st, pl, t):
        k = pl[0]
        if k == 'local':
            n = lkey(pl)
            base = st.env[n] if n in st.env else (('param', pl[1]) if len(pl) == 2 else ('param', pl[1], pl[2]))
            if st.fenv:
                ov = tuple(sorted(((kk[1], vv) for kk, vv in st.fenv.items() if kk[0] == n), key=lambda x: str(x[0])))
                if ov:
                    return ('upd', base, ov)
            return base
        if k == 'pfield':
            key = self.fkey(pl)
            if key is not None and key in st.fenv:
                return st.fenv[key]
            base = pl[1]
            if self.rooted_local(base):
                bv = self.read_place(st, base, t)
                if bv[0] == 'downcast' and bv[1][0] == 'agg' and bv[1][2] == bv[2]:
                    bv = bv[1]  # (Some(x) as Some).0  ->  x
                if bv[0] == 'agg':
                    fn = bv[4] if len(bv) > 4 else None
                    if fn and pl[2] in fn:
                        return bv[3][fn.index(pl[2])]
                    try:
                        i = int(pl[2])
                        if i < len(bv[3]):
                            return bv[3][i]
                    except ValueError:
                        pass
                if bv[0] == 'downcast' and bv[2] == 'Continue' and pl[2] == '0' and bv[1][0] == 'call' and bv[1][2] == 'std::ops::Try::branch' and bv[1][3]:
                    # `x?` on an Option/Result: the Continue payload is the Some/Ok payload of x
                    return ('field', ('downcast', try_operand(bv[1]), try_ok_variant(bv[1])), '0')
                if bv[0] == 'downcast' and bv[2] == 'Some' and pl[2] == '0' and bv[1][0] == 'call' and len(bv[1][3]) == 2 \
                        and bv[1][2] in ('core::num::checked_sub', 'core::num::checked_add'):
                    # the Some payload of `a.checked_sub(b)` is a - b
                    return ('bin', 'Sub' if bv[1][2].endswith('sub') else 'Add', bv[1][3][0], bv[1][3][1])
                return ('field', bv, pl[2])
            if pl in st.mem:
                return st.mem[pl]
            return ('load', pl, t)
        if k == 'pdown':
            base = pl[1]
            if self.rooted_local(base):
                bv = self.read_place(st, base, t)
                return ('downcast', bv, pl[2])
            return ('load', pl, t)
        if k == 'deref':
            v = pl[1]
            # *&place  ->  place
            if v[0] == 'ref' or v[0] == 'rawptr':
                inner = v[1]
                if self.rooted_local(inner):
                    return self.read_place(st, inner, t)
            return ('load', pl, t)
        return ('load', pl, t)

    def rooted_local(self, pl):
        while pl[0] in ('pfield', 'pdown', 'pindex'):
            pl = pl[1]
        return pl[0] == 'local'

    def through_deref(self, pl):
        while pl[0] in ('pfield', 'pdown', 'pindex'):
            pl = pl[1]
        return pl[0] == 'deref'

    def fkey(self, pl):
        parts = []
        while pl[0] in ('pfield', 'pdown'):
            parts.append((pl[0], pl[2]))
            pl = pl[1]
        if pl[0] != 'local':
            return None
        return (lkey(pl), tuple(reversed(parts)))

    def operand(self, st, o):
        k = o['k']
        if k in ('copy', 'move'):
            pl = self.place(st, o['p'])
            t = len(st.events)
            v = self.read_place(st, pl, t)
            if v[0] == 'load':
                st.events.append(Event('rd', idx=t, place=pl, val=v))
            return v
        if k == 'const':
            if o.get('fn'):
                return ('fnptr', canon(o['fn']['path']))
            if 'val' not in o and o.get('constdef'):
                cv = self.named_const_value(o['constdef'])
                if cv is None and st.selfty and '::' in o['constdef']:
                    # `Self::SENDER` inside a provided method of a crate-private trait, spliced for a concrete Self:
                    # the constant of that impl (`<Sender<T> as Handle<T>>::SENDER`)
                    tr, nm = o['constdef'].rsplit('::', 1)
                    pre = '<' + st.selfty + ' as ' + tr
                    ks = [k for k in self.body.facts.consts if k.endswith('>::' + nm) and (k.startswith(pre + '<') or k.startswith(pre + '>'))]
                    if len(ks) == 1:
                        cv = self.named_const_value(ks[0])
                if cv is None and st.subst and '::' in o['constdef']:
                    # `E::CLOSED` inside a generic helper spliced for a concrete E: the constant of that impl
                    m_ = re.search(r'args: \[([A-Za-z_][A-Za-z_0-9]*)/#', o.get('dbg', ''))
                    who = m_.group(1) if m_ else None
                    if who in st.subst:
                        tr, nm = o['constdef'].rsplit('::', 1)
                        conc = st.subst[who]
                        ks = [k for k in self.body.facts.consts if k.endswith('>::' + nm) and ' as ' in k
                              and canon(k[1:k.index(' as ')]) == canon(conc) and canon(k[k.index(' as ') + 4:k.rindex('>::')]).split('<')[0] == canon(tr)]
                        if len(ks) == 1:
                            cv = self.named_const_value(ks[0])
                if cv is not None:
                    return cv
            m = PROMOTED_RE.search(o.get('dbg', ''))
            if m:
                pv = self.promoted_value(st, int(m.group(1)))
                if pv is not None:
                    return pv
            if 'val' in o:
                return ('const', o['ty'], o['val'])
            return ('const', o['ty'], o['dbg'])
        return ('unknown', o.get('dbg'))

    def named_const_value(self, key):
        """value of a named (possibly generic) constant: evaluate its straight-line CTFE body"""
        facts = self.body.facts
        cb = facts.consts.get(key)
        if cb is None:
            return None
        cache = facts.__dict__.setdefault('_constcache', {})
        if key in cache:
            return cache[key]
        cache[key] = None
        ps = Evaluator(cb, 0).run()
        val = None
        if ps:
            rets = [p for p in ps if p.end == 'return']
            if len(rets) == 1:
                val = rets[0].ret
        cache[key] = val
        return val

    def promoted_value(self, st, idx):
        """value of the idx-th promoted constant of the current body: evaluate its (straight-line) MIR"""
        body = st.body or self.body
        proms = body.j.get('promoted') or []
        if idx >= len(proms):
            return None
        cache = body.__dict__.setdefault('_promcache', {})
        if idx in cache:
            return cache[idx]
        pb = Body(dict(proms[idx], key=body.key + '::{promoted#%d}' % idx), body.facts)
        ps = Evaluator(pb, 0).run()
        val = None
        if ps and len(ps) == 1 and ps[0].ret is not None:
            val = ps[0].ret
            # `&_1` with snapshot: expose the referent
            if val[0] in ('ref', 'rawptr') and len(val) > 2 and val[2] is not None:
                val = ('ref', ('promoted', idx), val[2])
        cache[idx] = val
        return val

    def mkref(self, st, kind, pl):
        # reborrow collapse: &*v -> v
        if pl[0] == 'deref':
            return pl[1]
        if pl[0] == 'promoted':
            pv = self.promoted_value(st, pl[1])
            if pv is not None:
                return pv
        snap = None
        if self.rooted_local(pl):
            snap = self.read_place(st, pl, len(st.events))
        return (kind, pl, snap)

    def rvalue(self, st, rv):
        k = rv['k']
        if k == 'use':
            return self.operand(st, rv['o'])
        if k == 'ref':
            return self.mkref(st, 'ref', self.place(st, rv['p']))
        if k == 'rawptr':
            return self.mkref(st, 'rawptr', self.place(st, rv['p']))
        if k == 'bin':
            a_ = self.operand(st, rv['a'])
            b_ = self.operand(st, rv['b'])
            if rv['op'] in ('Eq', 'Ne', 'Lt', 'Le', 'Gt', 'Ge') and a_[0] == 'const' and b_[0] == 'const' and a_[1] == b_[1] \
                    and a_[1] in ('u8', 'u16', 'u32', 'u64', 'usize', 'i8', 'i16', 'i32', 'i64', 'isize', 'bool'):
                try:
                    x, y = int(a_[2]), int(b_[2])
                    r_ = {'Eq': x == y, 'Ne': x != y, 'Lt': x < y, 'Le': x <= y, 'Gt': x > y, 'Ge': x >= y}[rv['op']]
                    return ('const', 'bool', '1' if r_ else '0')
                except (ValueError, TypeError):
                    pass
            return ('bin', rv['op'], a_, b_)
        if k == 'un':
            a = self.operand(st, rv['a'])
            if rv['op'] == 'Not' and a[0] == 'const' and a[1] == 'bool':
                return ('const', 'bool', '0' if a[2] == '1' else '1')
            if rv['op'] == 'Not' and a[0] == 'un' and a[1] == 'Not' and rv.get('ty', 'bool') == 'bool':
                return a[2]  # !!x on a bool
            return ('un', rv['op'], a)
        if k == 'cast':
            o_ = self.operand(st, rv['o'])
            if rv['ck'] == 'Transmute' and o_[0] == 'agg' and o_[1] in HANDLE_NAMES and rv['ty'].split('<')[0] in HANDLE_NAMES:
                # flavour conversion of a handle value that is known on this path (a constructor written as
                # `bounded(n)` + `to_async()`): the same single-field struct under the other name (layout: rule L4)
                return ('agg', rv['ty'].split('<')[0], rv['ty'].split('<')[0] if o_[2] == o_[1] else o_[2], o_[3], o_[4])
            if rv['ck'] == 'Transmute' and st.depth > 0 and rv['ty'].startswith('&'):
                import re as _re
                tgt = _re.sub(r"^&('[a-z_0-9]+ )?", '', rv['ty'])
                if tgt.split('<')[0] in HANDLE_NAMES:
                    # `self.as_sync()` spliced into a caller: the same handle seen through the other flavour's type
                    return o_
            if rv['ck'] == 'IntToInt' and o_[0] == 'const' and str(o_[2]).lstrip('-').isdigit() and str(o_[1]) in ('isize',) or (
                    rv['ck'] == 'IntToInt' and o_[0] == 'const' and str(o_[1]).startswith('intenum:')):
                return ('const', rv['ty'], o_[2])
            if rv['ck'] == 'IntToInt' and o_[0] == 'param' and self.is_int_enum_param(st, o_):
                return o_
            return ('cast', rv['ck'], o_, rv['ty'])
        if k == 'agg':
            fields = tuple(self.operand(st, f) for f in rv['fields'])
            if rv['ak'] == 'adt':
                iv = self.int_enum_value(canon(rv['name']), rv['variant']) if not fields else None
                if iv is not None:
                    # a private field-less enum with an integer representation (`#[repr(u8)] enum State { Unlocked = 0, .. }`) used as
                    # the named form of its numbers: the value IS its discriminant
                    return iv
                return ('agg', canon(rv['name']), rv['variant'], fields, tuple(rv.get('fnames', ())))
            return ('agg', rv['ak'], rv.get('name', ''), fields, ())
        if k == 'discr':
            pl = self.place(st, rv['p'])
            t = len(st.events)
            v = self.read_place(st, pl, t)
            if v[0] == 'const' and str(v[1]).startswith('intenum:'):
                return ('const', 'isize', v[2])
            if self.is_int_enum_ty(rv['p'].get('ty')):
                return v  # the integer the enum stands for (see above): `state as u8` on a parameter of that enum type
            return ('discr', v, tuple((a, b) for a, b in rv['variants']))
        if k == 'copyforderef':
            pl = self.place(st, rv['p'])
            return self.read_place(st, pl, len(st.events))
        return ('unknown', rv.get('dbg', k))

    def int_enum_value(self, name, variant):
        facts = self.body.facts
        if facts is None:
            return None
        a = facts.adts_by_canon().get(name)
        if not a or a.get('kind') != 'Enum' or str(a.get('repr_int')) in ('None', '') or any(v['fields'] for v in a['variants']):
            return None
        if name.endswith(('FutureState', 'KanalWaker')):
            return None
        for v in a['variants']:
            if v['name'] == variant and v.get('discr') is not None:
                return ('const', 'intenum:' + name, str(v['discr']))
        return None

    def is_int_enum_param(self, st, v):
        body = st.body or self.body
        try:
            ty = body.locals[v[1]]['ty']
        except Exception:
            return False
        return self.is_int_enum_ty(ty)

    def is_int_enum_ty(self, ty):
        facts = self.body.facts
        if facts is None or not ty:
            return False
        if canon(str(ty)).endswith(('FutureState', 'KanalWaker')):
            return False  # enums the rules know by their variants
        a = facts.adts_by_canon().get(canon(str(ty)))
        return bool(a) and a.get('kind') == 'Enum' and str(a.get('repr_int')) not in ('None', '') and not any(v['fields'] for v in a['variants']) \
            and all(v.get('discr') is not None for v in a['variants'])

    def assign(self, st, lhs, val, at, bb):
        self.assign_place(st, self.place(st, lhs), val, at, bb)

    def assign_place(self, st, pl, val, at, bb):
        if pl[0] == 'local':
            lk = lkey(pl)
            st.env[lk] = val
            # whole-local assignment invalidates field overrides
            for key in [k for k in st.fenv if k[0] == lk]:
                del st.fenv[key]
            return
        key = self.fkey(pl)
        if key is not None:
            st.fenv[key] = val
            return
        st.events.append(Event('wr', idx=len(st.events), place=pl, val=val, at=at, bb=bb))
        bp = mem_base_path(pl)
        if bp is not None:
            for q in [q for q in st.mem if mem_overlap(mem_base_path(q), bp)]:
                del st.mem[q]
            st.mem[pl] = val

    def invalidate_mem(self, st, args):
        if not st.mem:
            return
        for q in list(st.mem):
            bq = mem_base_path(q)
            if bq is None or any(mem_mentions(a, bq) for a in args):
                del st.mem[q]

    # ----- stepping -----
    def inline_target(self, st, fn):
        is_into = bool(fn) and canon(fn.get('path', '')) == 'std::convert::Into::into' and len(fn.get('args') or []) == 2
        if not fn or not (fn.get('local') or fn.get('resolved_local') or is_into) or st.depth >= MAX_INLINE_DEPTH:
            return None
        facts = self.body.facts
        cand = facts.bodies.get(fn['path'])
        if cand is None and fn.get('resolved_local'):
            cand = facts.bodies.get(fn.get('resolved'))
        if cand is None and canon(fn['path']) == 'std::convert::Into::into' and len(fn.get('args') or []) == 2:
            # `x.into()` is `U::from(x)` (core's blanket impl): when the `From` impl is written in this crate, that is the callee
            cand = facts.bodies.get('<%s as std::convert::From<%s>>::from' % (fn['args'][1], fn['args'][0]))
        if cand is None and fn.get('trait') and st.selfty and str(fn.get('full', '')).startswith('<<Self as '):
            # `<<Self as Handle<T>>::End as ChannelEnd>::own_count`: a strategy type selected through an associated type of the
            # concrete Self's impl (`impl Handle<T> for Sender<T> { type End = SendEnd; }`)
            full = fn['full']
            m_ = re.match(r'<<Self as ([^>]*(?:<[^<>]*>)?)>::([A-Za-z_][A-Za-z_0-9]*) as ', full)
            if m_:
                tr_, assoc = m_.group(1), m_.group(2)
                want = '<%s as %s>' % (st.selfty, tr_)
                for im in facts.impls:
                    if im.get('trait_ref') == want and assoc in (im.get('assoc_tys') or {}):
                        conc = im['assoc_tys'][assoc]
                        cand = facts.bodies.get('<' + conc + ' as ' + full[m_.end():].split('::<')[0])
                        break
        if cand is None and fn.get('trait') and st.selfty and str(fn.get('full', '')).startswith('<Self as '):
            # a required method called from a provided method of a crate-private trait, spliced for a concrete Self
            cand = facts.bodies.get('<' + st.selfty + fn['full'][len('<Self'):])
        if cand is None and fn.get('trait') and st.subst and str(fn.get('full', '')).startswith('<') and ' as ' in fn['full']:
            # `<S as Handle<T>>::from_internal` inside a generic helper spliced for concrete S (`new_channel::<T, Sender<T>, ..>`)
            who = fn['full'][1:fn['full'].index(' as ')]
            if who in st.subst:
                cand = facts.bodies.get('<' + st.subst[who] + fn['full'][1 + len(who):])
        if cand is not None and not inlinable(cand) and canon(cand.key) in ('pointer::KanalPtr::copy', 'pointer::KanalPtr::write', 'pointer::KanalPtr::read') \
                and self.body.key.startswith('pointer::KanalPtr::') and cand.j.get('def_kind') in ('Fn', 'AssocFn'):
            # inside pointer.rs one KanalPtr primitive may be written in terms of another (`write(d)` = `copy(&d); forget(d)`):
            # the callee's storage decisions are the caller's
            pass
        elif cand is None or not inlinable(cand):
            return None
        cur = st.body or self.body
        if cand is cur or any(f['body'] is cand for f in st.stack) or cand is self.body:
            return None  # no recursion
        return cand

    def step(self, b, st, work):
        while True:
            body = st.body or self.body
            v = st.visits.get(b, 0)
            if v > self.k:
                return  # loop bound reached: drop this path prefix
            st.visits[b] = v + 1
            st.blocks.append(b)
            blk = body.blocks[b]
            for s in blk['stmts']:
                if s['k'] == 'assign':
                    val = self.rvalue(st, s['rv'])
                    self.assign(st, s['lhs'], val, s.get('at'), b)
                elif s['k'] == 'setdiscr':
                    pl = self.place(st, s['lhs'])
                    st.events.append(Event('wr', idx=len(st.events), place=('pdiscr', pl),
                                           val=('const', 'variant', str(s['variant'])), at=s.get('at'), bb=b))
                elif s['k'] == 'intrinsic':
                    st.events.append(Event('intrinsic', idx=len(st.events), val=s['dbg'], at=s.get('at'), bb=b))
            t = blk['term']
            k = t['k']
            if k == 'goto':
                b = t['target']
                continue
            if k == 'return' and st.stack:
                # return from a spliced helper: bind the result in the caller frame and go on there
                d = st.depth
                rv = st.env.get((0, d), ('const', '()', 'unit'))
                fr = st.stack.pop()
                for key in [kk for kk in st.env if isinstance(kk, tuple) and kk[1] == d]:
                    del st.env[key]
                for key in [kk for kk in st.fenv if isinstance(kk[0], tuple) and kk[0][1] == d]:
                    del st.fenv[key]
                st.body = fr['body']
                st.visits = fr['visits']
                st.depth = d - 1
                if 'selfty' in fr:
                    st.selfty = fr['selfty']
                if 'subst' in fr:
                    st.subst = fr['subst']
                if fr.get('wrap'):
                    rv = wrap_value(fr['wrap'], rv)
                self.assign(st, fr['dest'], rv, t.get('at'), fr['bb'])
                b = fr['target']
                continue
            if k == 'return':
                rv = st.env.get(0, ('param', 0))
                key0 = [kk for kk in st.fenv if kk[0] == 0]
                st.events.append(Event('ret', idx=len(st.events), val=rv, at=t.get('at'), bb=b,
                                       extra={kk[1]: st.fenv[kk] for kk in key0}))
                self.emit(st, 'return')
                return
            if k == 'unreachable':
                self.emit(st, 'unreachable')
                return
            if k in ('resume', 'abort'):
                return
            if k == 'drop':
                pl = self.place(st, t['p'])
                val = self.read_place(st, pl, len(st.events))
                st.events.append(Event('drop', idx=len(st.events), place=pl, val=val, at=t.get('at'),
                                       bb=b, extra=t.get('ty')))
                b = t['target']
                continue
            if k == 'assert':
                c = self.operand(st, t['cond'])
                st.events.append(Event('assert', idx=len(st.events), val=c, at=t.get('at'), bb=b,
                                       extra=t.get('msg')))
                b = t['target']
                continue
            if k == 'call':
                args = tuple(self.operand(st, a) for a in t['args'])
                fn = t.get('fn')
                if fn:
                    name = canon(fn['path'])
                else:
                    name = '<indirect>'
                    fo = self.operand(st, t['fnop'])
                    f0 = fo
                    while f0[0] == 'cast' and len(f0) > 2:
                        f0 = f0[2]
                    if f0[0] == 'fnptr':
                        # a call through a `fn(..)` pointer whose target is known on this path
                        name = f0[1]
                        tgt = None
                        for k_, b_ in self.body.facts.bodies.items():
                            if canon(k_) == name:
                                tgt = k_
                                break
                        fn = {'path': tgt or name, 'args': [], 'local': tgt is not None, 'full': tgt or name, 'name': name.split('::')[-1]}
                    else:
                        args = (fo,) + args
                if fn and name in ('std::ops::FnOnce::call_once', 'std::ops::Fn::call', 'std::ops::FnMut::call_mut') and len(args) == 2:
                    f0 = strip_ref_value(args[0])
                    if f0 is not None and f0[0] == 'fnptr' and args[1][0] == 'agg' and args[1][1] == 'tuple':
                        # a function item passed as a value and called (`is_listed(&internal, sig)` with is_listed =
                        # ChannelInternal::send_signal_exists): it is a direct call of that function
                        name = f0[1]
                        args = tuple(args[1][3])
                        tgt = None
                        for k_, b_ in self.body.facts.bodies.items():
                            if canon(k_) == name:
                                tgt = k_
                                break
                        fn = {'path': tgt or name, 'args': [], 'local': tgt is not None, 'full': tgt or name, 'name': name.split('::')[-1]}
                callee = self.inline_target(st, fn)
                clo_args = None
                if callee is None and fn and name in ('std::ops::FnOnce::call_once', 'std::ops::Fn::call', 'std::ops::FnMut::call_mut') \
                        and st.depth < MAX_INLINE_DEPTH and len(args) == 2:
                    # a closure defined in this crate, called with a tuple of arguments ("rust-call" ABI): splice its body
                    cv = args[0]
                    if cv[0] in ('ref', 'rawptr') and len(cv) > 2 and cv[2] is not None:
                        cv = cv[2]
                    if cv[0] == 'agg' and cv[1] == 'closure' and args[1][0] == 'agg' and args[1][1] == 'tuple':
                        cb = self.body.facts.bodies.get(cv[2])
                        cur = st.body or self.body
                        if cb is not None and cb is not cur and not any(f['body'] is cb for f in st.stack):
                            callee = cb
                            clo_args = (args[0],) + tuple(args[1][3])
                if callee is not None and clo_args is not None:
                    args = clo_args
                if name in COMBINATORS and args and t.get('target') is not None and st.depth < MAX_INLINE_DEPTH \
                        and self.combinator(st, name, args, t, b, work):
                    return
                if name == 'std::ops::Try::branch' and t.get('target') is not None:
                    x = try_operand(('call', 0, name, args))
                    if x is not None and x[0] == 'agg' and x[2] in ('Some', 'Ok', 'None', 'Err'):
                        if x[2] in ('Some', 'Ok'):
                            cf = ('agg', 'std::ops::ControlFlow', 'Continue', (x[3][0],) if x[3] else (('agg', 'tuple', '', (), ()),), ())
                        else:
                            cf = ('agg', 'std::ops::ControlFlow', 'Break', (x,), ())
                        self.assign(st, t['dest'], cf, t.get('at'), b)
                        b = t['target']
                        continue
                if name == 'std::ops::FromResidual::from_residual' and fn and fn['args'] and fn['args'][0].startswith('std::result::Result<') and t.get('target') is not None:
                    res = args[-1]
                    out = None
                    if res[0] == 'agg' and res[2] == 'Err':
                        out = ('agg', 'std::result::Result', 'Err', res[3], ())
                    elif res[0] == 'field' and res[1][0] == 'downcast' and res[1][2] == 'Break' and res[1][1][0] == 'call' and res[1][1][2] == 'std::ops::Try::branch':
                        x = try_operand(res[1][1])
                        e = None
                        if x is not None and x[0] == 'call' and x[2] in ('std::option::Option::ok_or',) and len(x[3]) > 1:
                            e = x[3][1]
                        elif x is not None:
                            e = ('field', ('downcast', x, 'Err'), '0')
                        if e is not None:
                            out = ('agg', 'std::result::Result', 'Err', (e,), ())
                    if out is not None:
                        self.assign(st, t['dest'], out, t.get('at'), b)
                        b = t['target']
                        continue
                if name in ('core::bool::then_some', 'std::bool::then_some') and len(args) == 2 and t.get('target') is not None:
                    # `cond.then_some(v)`: Some(v) iff cond - fork like the `if` it abbreviates when the condition is one we can name
                    cond = args[0]
                    if cond[0] == 'const' and cond[1] == 'bool':
                        val_ = ('agg', 'std::option::Option', 'Some', (args[1],), ()) if cond[2] == '1' else ('agg', 'std::option::Option', 'None', (), ())
                        self.assign(st, t['dest'], val_, t.get('at'), b)
                        b = t['target']
                        continue
                    r_ = classify_bool_expr(cond)
                    if r_ is not None:
                        sF = st.clone()
                        sF.events.append(Event('br', idx=len(sF.events), label=r_[0], outcome='F' if r_[1] else 'T', val=cond, at=t.get('at'), bb=b, taken=('0', ['0'])))
                        self.assign(sF, t['dest'], ('agg', 'std::option::Option', 'None', (), ()), t.get('at'), b)
                        work.append((t['target'], sF))
                        st.events.append(Event('br', idx=len(st.events), label=r_[0], outcome='T' if r_[1] else 'F', val=cond, at=t.get('at'), bb=b, taken=(None, ['0'])))
                        self.assign(st, t['dest'], ('agg', 'std::option::Option', 'Some', (args[1],), ()), t.get('at'), b)
                        b = t['target']
                        continue
                if name in ('core::bool::then', 'std::bool::then') and len(args) == 2 and t.get('target') is not None and st.depth < MAX_INLINE_DEPTH:
                    # `cond.then(|| expr)`: an if/else in disguise - fork on the condition, splice the closure on the true side
                    cv = args[1]
                    if cv[0] in ('ref', 'rawptr') and len(cv) > 2 and cv[2] is not None:
                        cv = cv[2]
                    cb = self.body.facts.bodies.get(cv[2]) if cv[0] == 'agg' and cv[1] == 'closure' else None
                    if cb is not None:
                        cond = args[0]
                        r_ = classify_bool_expr(cond)
                        sF = st.clone()
                        if r_ is not None:
                            sF.events.append(Event('br', idx=len(sF.events), label=r_[0], outcome='F' if r_[1] else 'T', val=cond, at=t.get('at'), bb=b, taken=('0', ['0'])))
                        self.assign(sF, t['dest'], ('agg', 'std::option::Option', 'None', (), ()), t.get('at'), b)
                        work.append((t['target'], sF))
                        if r_ is not None:
                            st.events.append(Event('br', idx=len(st.events), label=r_[0], outcome='T' if r_[1] else 'F', val=cond, at=t.get('at'), bb=b, taken=(None, ['0'])))
                        st.events.append(Event('inline', idx=len(st.events), name=cb.key, args=(args[1],), at=t.get('at'), bb=b, fn=None, extra={'body': cb.key}))
                        st.stack.append({'body': st.body, 'visits': st.visits, 'dest': t['dest'], 'target': t['target'], 'bb': b, 'wrap': 'Some'})
                        st.depth += 1
                        st.body = cb
                        st.visits = {}
                        st.env[(1, st.depth)] = args[1]
                        b = 0
                        continue
                CTORS = VARIANT_CTORS
                if name in CTORS and len(args) == 1 and t.get('target') is not None:
                    # a variant constructor used as a function (`opt.map(Some)`, `ready = Some`)
                    enum_, var_ = CTORS[name]
                    self.assign(st, t['dest'], ('agg', enum_, var_, (args[0],), ()), t.get('at'), b)
                    b = t['target']
                    continue
                if name == 'std::option::Option::take' and args and t.get('target') is not None:
                    a0 = args[0]
                    if a0[0] in ('ref', 'rawptr') and self.rooted_local(a0[1]):
                        cur_ = self.read_place(st, a0[1], None)
                        if cur_[0] == 'agg' and cur_[1].endswith('option::Option') and cur_[2] in ('Some', 'None'):
                            # `local_option.take()` on a known value: the local becomes None, the result is the old value
                            self.assign_place(st, a0[1], ('agg', cur_[1], 'None', (), ()), t.get('at'), b)
                            self.assign(st, t['dest'], cur_, t.get('at'), b)
                            b = t['target']
                            continue
                if name in ('std::option::Option::unwrap', 'std::option::Option::expect', 'std::option::Option::unwrap_unchecked') and args:
                    a0 = args[0]
                    if a0[0] == 'agg' and a0[1].endswith('option::Option') and a0[2] == 'Some' and a0[3] and t.get('target') is not None:
                        self.assign(st, t['dest'], a0[3][0], t.get('at'), b)
                        b = t['target']
                        continue
                if name == 'std::iter::IntoIterator::into_iter' and fn and fn.get('args') and str(fn['args'][0]).startswith('&std::collections::VecDeque<'):
                    name = 'std::collections::VecDeque::iter'  # `for x in &deque` is `for x in deque.iter()`
                if name in ('future::FutureState::is_waiting', 'future::FutureState::is_done') and args and t.get('target') is not None:
                    sv = strip_ref_value(args[0])
                    if sv is not None and sv[0] in ('ref', 'rawptr') and sv[1] in st.mem:
                        sv = st.mem[sv[1]]
                    elif sv is not None and sv[0] == 'load' and sv[1] in st.mem:
                        sv = st.mem[sv[1]]
                    if sv is not None and sv[0] == 'agg' and sv[1].endswith('FutureState'):
                        # the state was assigned earlier on this path (stream re-arm, then `if self.state.is_waiting()`)
                        want_ = 'Waiting' if name.endswith('is_waiting') else 'Done'
                        self.assign(st, t['dest'], ('const', 'bool', '1' if sv[2] == want_ else '0'), t.get('at'), b)
                        b = t['target']
                        continue
                if name == OPT + '::or' and len(args) == 2 and t.get('target') is not None and args[0][0] != 'agg':
                    # `a.or(b)` where the variant of `a` was branched on earlier on this path, or where b is None
                    kv = None
                    try:
                        was = st.decided.get(self.imm_norm(('discr', args[0], (('None', '0'), ('Some', '1'))), 0, st))
                    except TypeError:
                        was = None
                    if was is not None and was[0] == 'eq':
                        kv = 'Some' if was[1] == '1' else 'None'
                    elif was is not None and was[0] == 'ne' and len(was[1]) == 1:
                        kv = 'None' if '1' in was[1] else 'Some'
                    folded = None
                    if kv == 'Some':
                        folded = args[0]
                    elif kv == 'None':
                        folded = args[1]
                    elif args[1][0] == 'agg' and args[1][2] == 'None':
                        folded = args[0]
                    if folded is not None:
                        self.assign(st, t['dest'], folded, t.get('at'), b)
                        b = t['target']
                        continue
                a0s = strip_ref_value(args[0]) if args else None
                if args and t.get('target') is not None and a0s is not None and a0s[0] == 'agg' and a0s[2] in ('Some', 'None', 'Ok', 'Err') \
                        and a0s[1].endswith(('option::Option', 'result::Result')) and (args[0][0] == 'agg' or name.split('::')[-1] in ('is_ok', 'is_err')):
                    # closure-free combinators on a value whose variant is known on this path
                    x = a0s
                    pay = x[3][0] if x[3] else None
                    folded = None
                    if name == OPT + '::ok_or' and len(args) == 2:
                        folded = ('agg', RES, 'Ok', (pay,), ()) if x[2] == 'Some' else ('agg', RES, 'Err', (args[1],), ())
                    elif name == OPT + '::unwrap_or' and len(args) == 2:
                        folded = pay if x[2] == 'Some' else args[1]
                    elif name == RES + '::ok':
                        folded = ('agg', OPT, 'Some', (pay,), ()) if x[2] == 'Ok' else ('agg', OPT, 'None', (), ())
                    elif name == RES + '::err':
                        folded = ('agg', OPT, 'Some', (pay,), ()) if x[2] == 'Err' else ('agg', OPT, 'None', (), ())
                    elif name in (RES + '::is_ok', RES + '::is_err'):
                        folded = ('const', 'bool', '1' if (x[2] == 'Ok') == name.endswith('is_ok') else '0')
                    elif name == OPT + '::or' and len(args) == 2 and x[2] == 'Some':
                        folded = x
                    elif name in (OPT + '::map_or', OPT + '::map', RES + '::map', RES + '::map_or') and strip_ref_value(args[-1]) is not None \
                            and strip_ref_value(args[-1])[0] == 'fnptr' and strip_ref_value(args[-1])[1] in VARIANT_CTORS:
                        # `opt.map_or(Poll::Pending, Poll::Ready)` / `opt.map(Some)`: the mapping function is a variant constructor
                        en_, var_ = VARIANT_CTORS[strip_ref_value(args[-1])[1]]
                        hit = x[2] in ('Some', 'Ok')
                        if name.endswith('::map_or') and len(args) == 3:
                            folded = ('agg', en_, var_, (pay,), ()) if hit else args[1]
                        elif name.endswith('::map') and len(args) == 2:
                            folded = ('agg', x[1], x[2], (('agg', en_, var_, (pay,), ()),), ()) if hit else x
                    if folded is not None:
                        self.assign(st, t['dest'], folded, t.get('at'), b)
                        b = t['target']
                        continue
                if name in ('std::cmp::PartialEq::eq', 'std::cmp::PartialEq::ne') and len(args) == 2 and t.get('target') is not None:
                    x0, x1 = strip_ref_value(args[0]), strip_ref_value(args[1])
                    if x0 is not None and x1 is not None and x0[0] == 'agg' and x1[0] == 'agg' and x0[1] == x1[1] and not x0[3] and not x1[3] \
                            and x0[1] not in ('tuple', 'closure', 'array'):
                        # derived equality of two known field-less enum values (`Transfer::of::<T>() != Transfer::Zst`)
                        same = x0[2] == x1[2]
                        self.assign(st, t['dest'], ('const', 'bool', '1' if same == name.endswith('eq') else '0'), t.get('at'), b)
                        b = t['target']
                        continue
                    if x0 is not None and x1 is not None and x0[0] == 'agg' and x1[0] == 'agg' and x0[1] == x1[1] and x0[1].endswith('option::Option'):
                        # `outcome == Some(true)` on an Option<bool> whose variant is known on this path
                        res_ = None
                        if x0[2] != x1[2]:
                            res_ = ('const', 'bool', '0')
                        elif x0[2] == 'None':
                            res_ = ('const', 'bool', '1')
                        else:
                            pa, pb = x0[3][0], x1[3][0]
                            if pb[0] != 'const' and pa[0] == 'const':
                                pa, pb = pb, pa
                            if pb[0] == 'const' and pb[1] == 'bool':
                                res_ = pa if pb[2] == '1' else ('un', 'Not', pa)
                        if res_ is not None:
                            if name.endswith('ne'):
                                res_ = ('const', 'bool', '0' if res_[2] == '1' else '1') if res_[0] == 'const' else ('un', 'Not', res_)
                            self.assign(st, t['dest'], res_, t.get('at'), b)
                            b = t['target']
                            continue
                if name in ('std::option::Option::is_some', 'std::option::Option::is_none') and args and t.get('target') is not None:
                    a0 = args[0]
                    if a0[0] in ('ref', 'rawptr') and len(a0) > 2 and a0[2] is not None:
                        a0 = a0[2]
                    if a0[0] == 'agg' and a0[1].endswith('option::Option') and a0[2] in ('Some', 'None'):
                        truth = (a0[2] == 'Some') == name.endswith('is_some')
                        self.assign(st, t['dest'], ('const', 'bool', '1' if truth else '0'), t.get('at'), b)
                        b = t['target']
                        continue
                if name == 'std::ops::FromResidual::from_residual' and fn and fn['args'] and fn['args'][0].startswith('std::option::Option<'):
                    # `None?` : the residual of an Option is always None
                    self.assign(st, t['dest'], ('agg', 'std::option::Option', 'None', (), ()), t.get('at'), b)
                    if t.get('target') is None:
                        return
                    b = t['target']
                    continue
                if callee is not None and t.get('target') is not None:
                    st.events.append(Event('inline', idx=len(st.events), name=name, args=args, at=t.get('at'), bb=b, fn=fn, extra={'body': callee.key}))
                    st.stack.append({'body': st.body, 'visits': st.visits, 'dest': t['dest'], 'target': t['target'], 'bb': b, 'selfty': st.selfty, 'subst': st.subst})
                    if fn and fn.get('trait') and fn.get('args') and callee.key == fn.get('path') and fn['args'][0] != 'Self':
                        st.selfty = fn['args'][0]
                    gens = [g for g in (callee.j.get('generics') or []) if not str(g).startswith("'")]
                    fargs = [a for a in ((fn or {}).get('args') or []) if not str(a).startswith("'")]
                    if fn and fargs and len(gens) == len(fargs) and not fn.get('trait'):
                        outer = st.subst or {}
                        st.subst = {g: outer.get(a, a) for g, a in zip(gens, fargs) if g != a}
                    elif fn and fargs and len(gens) == len(fargs) and callee.key == fn.get('path') and len(gens) > 1:
                        # a provided trait method with generic parameters of its own (`fn share<H: Handle<T>>(&self) -> H`)
                        outer = st.subst or {}
                        st.subst = {g: outer.get(a, a) for g, a in zip(gens[1:], fargs[1:]) if g != a}
                    st.depth += 1
                    st.body = callee
                    st.visits = {}
                    cps = callee.j.get('const_params') or {}
                    live = [n for n in range(1, callee.j.get('arg_count', len(args)) + 1) if str(n) not in cps] if cps else None
                    for i, a in enumerate(args):
                        st.env[((live[i] if live and i < len(live) else i + 1), st.depth)] = a
                    for n, v in cps.items():
                        st.env[(int(n), st.depth)] = const_param_value(v)
                    b = 0
                    continue
                cid = st.counter
                st.counter += 1
                res = ('call', cid, name, args)
                # guard deref normalisation
                if name in ('std::ops::Deref::deref', 'std::ops::DerefMut::deref_mut') and args:
                    a0 = args[0]
                    g = None
                    if a0[0] == 'ref' and a0[1][0] == 'local':
                        gv = st.env.get(lkey(a0[1]), ('param', a0[1][1]))
                        if is_guard(gv):
                            g = gv
                    elif is_guard(a0):
                        g = a0
                    if g is not None:
                        res = ('ci', g)
                ev = Event('call', idx=len(st.events), name=name, args=args, val=res, at=t.get('at'),
                           bb=b, fn=fn, extra={'exp': t.get('exp'), 'cid': cid})
                st.events.append(ev)
                self.invalidate_mem(st, args)
                if t.get('target') is None:
                    self.emit(st, 'panic')
                    return
                self.assign(st, t['dest'], res, t.get('at'), b)
                b = t['target']
                continue
            if k == 'switch':
                d = self.operand(st, t['o'])
                targets = t['targets']
                other = t['otherwise']
                cands = []  # (taken_values or None for otherwise, target)
                for val, tb in targets:
                    cands.append((val, tb))
                cands.append((None, other))
                if d[0] == 'discr' and d[1][0] == 'agg' and d[2]:
                    for vn, vv in d[2]:
                        if vn == d[1][2]:
                            d = ('const', 'discr', vv)
                if d[0] == 'const' and d[2].lstrip('-').isdigit():
                    chosen = None
                    for val, tb in targets:
                        if val == d[2]:
                            chosen = (val, tb)
                            break
                    if chosen is None:
                        chosen = (None, other)
                    cands = [chosen]
                    label_it = False
                else:
                    label_it = True
                listed = [val for val, _ in targets]
                # the same (immutable) value was already branched on earlier on this path: stay consistent
                prev = None
                dkey = self.imm_norm(d, 0, st)
                try:
                    prev = st.decided.get(dkey) if label_it else None
                except TypeError:
                    prev = None
                if prev is not None:
                    if prev[0] == 'eq':
                        keep = [c for c in cands if c[0] == prev[1]]
                        if not keep:
                            keep = [c for c in cands if c[0] is None]
                        cands = keep
                    else:
                        cands = [c for c in cands if c[0] is None or c[0] not in prev[1]]
                nexts = []
                pkey = None
                for val, tb in cands:
                    if label_it:
                        lab, outc = classify(d, val, listed)
                        if lab in PURE_PREDS or (lab and lab.startswith('pure:')):
                            if lab in st.pure and st.pure[lab] != outc:
                                continue
                        if lab in STATE_PREDS and outc in ('T', 'F'):
                            # the same named predicate over the same (unwritten) state loads was decided earlier on this path
                            # in another spelling (`count == 0` then `count != 0`): it keeps its truth value
                            lds = self.norm_loads(d, st)
                            if lds:
                                pkey = ('pred', lab, lds)
                                was = st.decided.get(pkey)
                                if was is not None and was != outc:
                                    continue
                    else:
                        lab, outc = None, None
                    nexts.append((val, tb, lab, outc))
                first = True
                # iterate in reverse so that the first candidate is processed in this loop
                todo = []
                for i, (val, tb, lab, outc) in enumerate(nexts):
                    s2 = st if i == len(nexts) - 1 else st.clone()
                    todo.append((val, tb, lab, outc, s2))
                # `both0` is the conjunction rc0 && sc0: present it to the rules as the two tests it stands for
                exp = []
                skipbr = set()
                for val, tb, lab, outc, s2 in todo:
                    if label_it and lab == 'both0':
                        inner = d
                        while inner[0] in ('un',):
                            inner = inner[2]
                        orv = inner[2] if inner[0] == 'bin' and inner[2][0] == 'bin' else (inner[3] if inner[0] == 'bin' else None)
                        la, lb_ = (orv[2], orv[3]) if orv is not None else (d, d)
                        if ci_field_load(la) == 'send_count':
                            la, lb_ = lb_, la
                        def vbr(s_, lab_, o_, v_):
                            s_.events.append(Event('br', idx=len(s_.events), label=lab_, outcome=o_, val=v_, at=t.get('at'), bb=b, taken=(val, listed)))
                        if outc == 'T':
                            vbr(s2, 'rc0', 'T', la)
                            vbr(s2, 'sc0', 'T', lb_)
                            skipbr.add(id(s2))
                            exp.append((val, tb, None, None, s2))
                        else:
                            s3 = s2.clone()
                            vbr(s2, 'rc0', 'F', la)
                            exp.append((val, tb, None, None, s2))
                            vbr(s3, 'rc0', 'T', la)
                            vbr(s3, 'sc0', 'F', lb_)
                            skipbr.add(id(s2))
                            skipbr.add(id(s3))
                            exp.append((val, tb, None, None, s3))
                    else:
                        exp.append((val, tb, lab, outc, s2))
                todo = exp
                for val, tb, lab, outc, s2 in todo:
                    if label_it and lab is not None:
                        try:
                            if val is not None:
                                s2.decided[dkey] = ('eq', val)
                            else:
                                old_ = s2.decided.get(dkey)
                                ex = frozenset(listed) | (old_[1] if old_ is not None and old_[0] == 'ne' else frozenset())
                                if old_ is None or old_[0] == 'ne':
                                    s2.decided[dkey] = ('ne', ex)
                        except TypeError:
                            pass
                    if label_it and pkey is not None and lab in STATE_PREDS and outc in ('T', 'F'):
                        s2.decided[pkey] = outc
                    if label_it and id(s2) not in skipbr:
                        s2.events.append(Event('br', idx=len(s2.events), label=lab, outcome=outc, val=d,
                                               at=t.get('at'), bb=b, taken=(val, listed)))
                        if lab in PURE_PREDS:
                            s2.pure[lab] = outc
                if not todo:
                    return
                for val, tb, lab, outc, s2 in todo[:-1]:
                    work.append((tb, s2))
                b = todo[-1][1]
                st = todo[-1][4]
                continue
            # unknown terminator
            st.events.append(Event('otherterm', idx=len(st.events), val=t.get('dbg'), bb=b))
            return

    def callable_body(self, st, f):
        """(body, leading args) of a closure value or function item defined in this crate, else None"""
        cv = f
        if cv[0] in ('ref', 'rawptr') and len(cv) > 2 and cv[2] is not None:
            cv = cv[2]
        facts = self.body.facts
        cb = None
        lead = ()
        if cv[0] == 'agg' and cv[1] == 'closure':
            cb = facts.bodies.get(cv[2])
            lead = (f,)
        elif cv[0] == 'fnptr':
            for k_, b_ in facts.bodies.items():
                if canon(k_) == cv[1] and inlinable(b_):
                    cb = b_
                    break
        if cb is None:
            return None
        cur = st.body or self.body
        if cb is cur or cb is self.body or any(fr['body'] is cb for fr in st.stack):
            return None
        return cb, lead

    def combinator(self, st, name, args, t, b, work):
        """`x.map_or(d, f)` and friends: fork on the variant of x exactly like the `match` they abbreviate and splice
        the closure / function item on the branch that calls it.  Returns False when the receiver is not understood."""
        kind, acts = COMBINATORS[name]
        recv = args[0]
        # only worth (and only safe for the rules that read the opaque call form) when a closure / function of this crate
        # is involved
        if not any(a[0] in ('f', 'f0') and len(args) > a[1] and self.callable_body(st, args[a[1]]) is not None for a in acts.values()):
            return False
        variants = OPT_VARIANTS if kind == 'opt' else (POLL_VARIANTS if kind == 'poll' else RES_VARIANTS)
        adt = OPT if kind == 'opt' else ('std::task::Poll' if kind == 'poll' else RES)
        if recv[0] == 'agg' and recv[2] in acts:
            branches = [(recv[2], None)]
        else:
            d = ('discr', recv, variants)
            branches = []
            listed = [vv for _, vv in variants]
            for vn, vv in variants:
                lab, outc = classify(d, vv, listed)
                branches.append((vn, (lab, outc, d, vv, listed)))
        todo = []
        for i, (vn, br) in enumerate(branches):
            s2 = st if i == len(branches) - 1 else st.clone()
            if br is not None:
                lab, outc, d, vv, listed = br
                if lab in PURE_PREDS and lab in s2.pure and s2.pure[lab] != outc:
                    continue
                s2.events.append(Event('br', idx=len(s2.events), label=lab, outcome=outc, val=d, at=t.get('at'), bb=b, taken=(vv, listed)))
            if recv[0] == 'agg':
                pay = recv[3][0] if recv[3] else ('agg', 'tuple', '', (), ())
            else:
                pay = ('field', ('downcast', recv, vn), '0')
            a = acts[vn]
            if a[0] in ('f', 'f0'):
                f = args[a[1]] if len(args) > a[1] else None
                if f is None:
                    return False
                fargs = (pay,) if a[0] == 'f' else ()
                cbl = self.callable_body(s2, f)
                if cbl is not None:
                    cb, lead = cbl
                    s2.events.append(Event('inline', idx=len(s2.events), name=cb.key, args=lead + fargs, at=t.get('at'), bb=b, fn=None, extra={'body': cb.key}))
                    s2.stack.append({'body': s2.body, 'visits': s2.visits, 'dest': t['dest'], 'target': t['target'], 'bb': b, 'wrap': a[2]})
                    s2.depth += 1
                    s2.body = cb
                    s2.visits = {}
                    for j, av in enumerate(lead + fargs):
                        s2.env[(j + 1, s2.depth)] = av
                    todo.append((0, s2))
                    continue
                cid = s2.counter
                s2.counter += 1
                fname = f[1] if f[0] == 'fnptr' else '<indirect>'
                res = ('call', cid, fname, fargs if f[0] == 'fnptr' else (f,) + fargs)
                s2.events.append(Event('call', idx=len(s2.events), name=fname, args=res[3], val=res, at=t.get('at'), bb=b, fn=None, extra={'exp': None, 'cid': cid}))
                val = wrap_value(a[2], res)
            elif a[0] == 'pay':
                val = wrap_value(a[1], pay)
            elif a[0] == 'arg':
                val = args[a[1]]
            elif a[0] == 'same':
                val = recv
            elif a[0] == 'none':
                val = ('agg', OPT, 'None', (), ())
            else:
                val = ('const', 'bool', '1' if a[1] else '0')
            self.assign(s2, t['dest'], val, t.get('at'), b)
            todo.append((t['target'], s2))
        for item in todo:
            work.append(item)
        return True

    def norm_loads(self, v, st, depth=0):
        """the (normalised) state loads a predicate value is built from, as a hashable key; () if none"""
        out = []

        def walk(x, dd):
            if not isinstance(x, tuple) or dd > 8:
                return
            if x and x[0] == 'load':
                out.append(self.imm_norm(x, 0, st))
                return
            for y in x:
                if isinstance(y, tuple):
                    walk(y, dd + 1)
        walk(v, 0)
        try:
            return tuple(sorted(set(out), key=str))
        except TypeError:
            return ()

    def imm_norm(self, v, depth=0, st=None):
        """key under which a branch decision is remembered: loads of never-written fields lose their time stamp"""
        if not isinstance(v, tuple) or depth > 6:
            return v
        if v and v[0] == 'load' and len(v) == 3 and isinstance(v[1], tuple):
            pl = v[1]
            ns = []
            cur = pl
            while isinstance(cur, tuple) and cur and cur[0] in ('pfield', 'pdown'):
                if cur[0] == 'pfield':
                    ns.append(cur[2])
                cur = cur[1]
            facts = self.body.facts
            if ns and cur[0] == 'deref' and facts is not None and all(facts.field_is_immutable(n) for n in ns):
                return ('load', pl, 'imm')
            if ns and cur[0] == 'deref' and st is not None:
                # a field that is written somewhere: two loads on this path still agree when nothing on the path between them
                # writes it (plain store, or a call handed a pointer to it that is known to write through pointers).  A racing
                # writer would be a data race on a non-atomic field, which is not what a second `match` on the same field
                # is there to observe.
                bq = mem_base_path(pl)
                ver = 0
                for e in st.events:
                    if e.kind == 'wr' and isinstance(e.place, tuple):
                        be = mem_base_path(e.place)
                        if be is not None and be[0] == bq[0] and mem_overlap(be, bq):
                            ver += 1
                    elif e.kind == 'call' and e.name in PTR_WRITERS and any(mem_mentions(a, bq) for a in e.args):
                        ver += 1
                return ('load', pl, ('ver', ver))
            return v
        if v and v[0] in ('un', 'not', 'bin', 'cast', 'discr'):
            return tuple(self.imm_norm(x, depth + 1, st) for x in v)
        if v and v[0] == 'call' and len(v) == 4 and v[2] in ('future::FutureState::is_waiting', 'future::FutureState::is_done') and st is not None \
                and len(v[3]) == 1 and isinstance(v[3][0], tuple) and v[3][0][0] in ('ref', 'rawptr') and isinstance(v[3][0][1], tuple):
            # a pure predicate of the future's state, asked twice on a path: the answers agree unless the state was written between
            pl = v[3][0][1]
            bq = mem_base_path(pl) if pl[0] in ('pfield', 'pdown') else None
            if bq is not None:
                ver = 0
                for e in st.events:
                    if e.kind == 'call' and e.val == v:
                        break
                    if e.kind == 'wr' and isinstance(e.place, tuple):
                        be = mem_base_path(e.place)
                        if be is not None and be[0] == bq[0] and mem_overlap(be, bq):
                            ver += 1
                return ('purecall', v[2], pl, ('ver', ver))
        return v

    def emit(self, st, end):
        self.out.append(Path(self.body, st.blocks, st.events, end))
        if len(self.out) > MAX_PATHS:
            raise TooManyPaths()


def mem_base_path(pl):
    """place pfield*(deref(X)) -> (X, (f1, f2, ..)) ; None for other shapes"""
    parts = []
    while pl[0] in ('pfield', 'pdown'):
        parts.append(pl[2])
        pl = pl[1]
    if pl[0] != 'deref':
        return None
    return (pl[1], tuple(reversed(parts)))


def mem_overlap(a, b):
    if a is None or b is None:
        return True
    if a[0] != b[0]:
        return False
    n = min(len(a[1]), len(b[1]))
    return a[1][:n] == b[1][:n]


def mem_mentions(a, bq, depth=0):
    """may a call that receives argument `a` write the memory cell bq=(X, path)?"""
    if not isinstance(a, tuple) or depth > 6:
        return False
    if a == bq[0]:
        return True
    if a[0] in ('ref', 'rawptr'):
        ba = mem_base_path(a[1])
        if ba is not None:
            return mem_overlap(ba, bq)
        return False
    if a[0] == 'agg':
        return any(mem_mentions(f, bq, depth + 1) for f in a[3])
    if a[0] == 'cast':
        return mem_mentions(a[2], bq, depth + 1)
    return False


def is_guard(v):
    """guard token: result of acquire_internal, or Some-payload of try_acquire_internal"""
    if v[0] == 'call' and v[2] == 'internal::acquire_internal':
        return True
    if v[0] == 'field' and v[2] == '0' and v[1][0] == 'downcast' and v[1][2] == 'Some':
        inner = v[1][1]
        if inner[0] == 'call' and inner[2] == 'internal::try_acquire_internal':
            return True
    return False


# --------------------------------------------------------------------------------------------
# predicate table: classify(discr_value, taken_value, listed_values) -> (label, outcome)
# --------------------------------------------------------------------------------------------

def is_const(v, val=None):
    return v[0] == 'const' and (val is None or v[2] == str(val))


def ci_field_load(v):
    """('load', pfield(deref(X),'f')) where X is a ChannelInternal reference -> field name"""
    if v[0] == 'load':
        return ci_field_place(v[1])
    return None


def is_ci_ref(v):
    if v[0] == 'ci':
        return True
    if v[0] == 'param':
        return True  # refined by the caller when needed (helper bodies take &mut self)
    return False


CI_GROUPS = set()  # fields of ChannelInternal that are private grouping structs (set from the facts; see roles.resolve_fields)


def ci_field_place(pl):
    """place pfield(deref(ci|param), f) -> f   (looking through a grouping struct: (*ci).counts.send_count -> send_count)"""
    if pl[0] == 'pfield' and pl[1][0] == 'deref' and is_ci_ref(pl[1][1]):
        return pl[2]
    if pl[0] == 'pfield' and pl[1][0] == 'pfield' and pl[1][2] in CI_GROUPS and pl[1][1][0] == 'deref' and is_ci_ref(pl[1][1][1]):
        return pl[2]
    return None


def ci_field_ref(v):
    """&(*ci).f  -> f"""
    if v[0] in ('ref', 'rawptr'):
        return ci_field_place(v[1])
    return None


def is_call(v, *names):
    return v[0] == 'call' and (not names or v[2] in names)


def sizeof_kind(v):
    """'T' for size_of::<T>() of the payload, 'ptr' for size_of::<*mut T>(), else None"""
    if v[0] == 'call' and v[2] == 'std::mem::size_of':
        return v
    return None


SIZEOF_ARGS = {}


def classify_bool_expr(d):
    """returns (label, polarity) such that d == True  <=>  label has outcome `polarity`"""
    if d[0] == 'un' and d[1] == 'Not':
        r = classify_bool_expr(d[2])
        if r:
            return (r[0], not r[1])
        return None
    if d[0] == 'bin' and d[1] in ('Eq', 'Ne') and (
            (d[3][0] == 'const' and d[3][1] == 'bool') or (d[2][0] == 'const' and d[2][1] == 'bool')):
        # x == true / x != false / ... with a boolean constant (typically after a helper was spliced in with a
        # constant flag argument)
        cst, other = (d[3], d[2]) if d[3][0] == 'const' and d[3][1] == 'bool' else (d[2], d[3])
        r = classify_bool_expr(other)
        if r is None:
            return None
        same = (cst[2] == '1') == (d[1] == 'Eq')   # expression is equivalent to `other` iff same
        return (r[0], r[1] if same else (not r[1]))
    if d[0] == 'bin':
        op, a, b = d[1], d[2], d[3]
        # normalise so that constants are on the right
        swap = {'Lt': 'Gt', 'Gt': 'Lt', 'Le': 'Ge', 'Ge': 'Le', 'Eq': 'Eq', 'Ne': 'Ne'}
        if op in swap and a[0] == 'const' and b[0] != 'const':
            a, b, op = b, a, swap[op]
        if a[0] == 'bin' and a[1] in ('BitOr', 'Add', 'AddUnchecked') and is_const(b, 0) and op in ('Eq', 'Ne', 'Gt', 'Le') \
                and {ci_field_load(a[2]), ci_field_load(a[3])} == {'send_count', 'recv_count'}:
            # `(send_count | recv_count) == 0` (or the sum of the two): both counts are zero, i.e. the channel is closed
            return ('both0', op in ('Eq', 'Le'))
        fa = ci_field_load(a)
        if fa is None and a[0] == 'bin' and a[1] in ('Add', 'Sub') and a[3][0] == 'const':
            # the counter re-read after `count += 1` / `count -= 1` in the same critical section
            fa0 = ci_field_load(a[2])
            if fa0 in ('recv_count', 'send_count'):
                fa = fa0
        if fa in ('recv_count', 'send_count') and b[0] == 'const':
            short = 'rc' if fa == 'recv_count' else 'sc'
            if is_const(b, 0):
                if op == 'Eq':
                    return (short + '0', True)
                if op in ('Ne', 'Gt'):
                    return (short + '0', False)
                if op == 'Le':
                    return (short + '0', True)
            if is_const(b, 1):
                if op == 'Lt':
                    return (short + '0', True)
                if op == 'Ge':
                    return (short + '0', False)
            return ('unrec:count-compare', True)
        if fa == 'capacity' and b[0] == 'const':
            if is_const(b, 0):
                if op in ('Eq', 'Le'):
                    return ('cap0', True)
                if op in ('Ne', 'Gt'):
                    return ('cap0', False)
            if is_const(b, 1):
                if op == 'Lt':
                    return ('cap0', True)
                if op == 'Ge':
                    return ('cap0', False)
            if b[2] == '18446744073709551615':
                if op == 'Eq':
                    return ('cap_max', True)
                if op in ('Ne', 'Lt'):
                    return ('cap_max', False)
            return ('unrec:capacity-const', True)
        # a copied count (let send_count = internal.send_count; ... if send_count == 0)
        # is the same load value, so it is covered above.
        if is_call(a, 'backoff::get_parallelism') and b[0] == 'const':
            if is_const(b, 1) and op == 'Eq':
                return ('par1', True)
            if is_const(b, 1) and op in ('Ne', 'Gt'):
                return ('par1', False)
            return ('unrec:parallelism-compare', True)
        # room: Q.len < capacity
        la = queue_len(a)
        lb = queue_len(b)
        ca = ci_field_load(a) == 'capacity'
        cb = ci_field_load(b) == 'capacity'
        if la and cb:
            if op == 'Lt':
                return ('room', True)
            if op == 'Ge':
                return ('room', False)
            if op == 'Eq':
                return ('full_eq', True)
            if op == 'Ne':
                return ('full_eq', False)
            return ('unrec:len-capacity', True)
        if ca and lb:
            if op == 'Gt':
                return ('room', True)
            if op == 'Le':
                return ('room', False)
            if op == 'Eq':
                return ('full_eq', True)
            if op == 'Ne':
                return ('full_eq', False)
            return ('unrec:len-capacity', True)
        if is_state_read(a) and b[0] == 'const':
            key = (op, b[2])
            tbl = {('Lt', '2'): ('sig_done', True), ('Ge', '2'): ('sig_done', False), ('Le', '1'): ('sig_done', True),
                   ('Gt', '1'): ('sig_done', False), ('Eq', '0'): ('sig_unlocked', True), ('Ne', '0'): ('sig_unlocked', False),
                   ('Eq', '1'): ('sig_term', True), ('Ne', '1'): ('sig_term', False)}
            if key in tbl:
                return tbl[key]
            return ('unrec:state-compare(%s %s)' % key, True)
        # size predicates
        sa = is_call(a, 'std::mem::size_of')
        sb = is_call(b, 'std::mem::size_of')
        if sa and sb:
            ta = a[3] if False else None
            return classify_sizeof(op, a, b)
        if sa and b[0] == 'const':
            if is_const(b, 0):
                if op == 'Eq':
                    return ('zst', True)
                if op in ('Gt', 'Ne'):
                    return ('zst', False)
            return ('unrec:sizeof-const', True)
        if sa or sb:
            return ('unrec:sizeof', True)
        # late: Instant::now() > deadline
        if is_call(a, 'std::time::Instant::now') or is_call(b, 'std::time::Instant::now'):
            return None
        if la and b[0] == 'const' and is_const(b, 0):
            if op == 'Eq':
                return ('qempty', True)
            if op in ('Ne', 'Gt'):
                return ('qempty', False)
        return None
    if d[0] == 'call':
        name = d[2]
        tbl = {
            'signal::Signal::wait': 'waitOK',
            'signal::Signal::wait_timeout': 'waitOK',
            'signal::Signal::async_blocking_wait': 'waitOK',
            'signal::Signal::is_terminated': 'term',
            'internal::ChannelInternal::cancel_send_signal': 'cancel',
            'internal::ChannelInternal::cancel_recv_signal': 'cancel',
            'internal::ChannelInternal::send_signal_exists': 'exists',
            'internal::ChannelInternal::recv_signal_exists': 'exists',
            'signal::Signal::will_wake': 'will_wake',
            'std::task::Waker::will_wake': 'waker_same',
            'std::mem::needs_drop': 'needs_drop',
            'std::option::Option::is_none': 'opt_none',
            'std::option::Option::is_some': 'opt_some',
            'future::FutureState::is_waiting': 'fs_waiting',
            'future::FutureState::is_done': 'fs_done',
            'std::collections::VecDeque::is_empty': 'qempty',
            'std::cmp::PartialOrd::gt': 'cmp_gt',
            'std::cmp::PartialOrd::lt': 'cmp_lt',
            'std::cmp::PartialOrd::ge': 'cmp_ge',
            'std::cmp::PartialOrd::le': 'cmp_le',
            'std::cmp::PartialEq::eq': 'cmp_eq',
            'std::cmp::PartialEq::ne': 'cmp_ne',
            'std::iter::Iterator::any': 'iter_any',
            'lock_api::RawMutex::try_lock': 'trylock_ok',
            'std::ops::Fn::call': 'cond',
            'std::ops::FnMut::call_mut': 'cond',
            'std::ops::FnOnce::call_once': 'cond',
            'std::result::Result::is_err': 'res_is_err',
            'std::result::Result::is_ok': 'res_is_ok',
        }
        if name in ('std::cmp::PartialEq::eq', 'std::cmp::PartialEq::ne') and len(d[3]) == 2:
            # `self.state == FutureState::Done` / `!= ..` written out instead of the `is_done()` / `is_waiting()` helpers
            def _fs_variant(x):
                if x[0] in ('ref', 'rawptr') and len(x) > 2 and x[2] is not None:
                    x = x[2]
                if x[0] == 'agg' and canon(x[1]) == 'future::FutureState' and not x[3]:
                    return x[2]
                return None

            def _is_state_place(x):
                return x[0] in ('ref', 'rawptr') and x[1][0] == 'pfield' and x[1][2] == 'state'
            for x, y in ((d[3][0], d[3][1]), (d[3][1], d[3][0])):
                v = _fs_variant(y)
                if v in ('Done', 'Waiting') and _is_state_place(x):
                    return ('fs_done' if v == 'Done' else 'fs_waiting', name.endswith('::eq'))
        if name in tbl:
            lab = tbl[name]
            if lab == 'cmp_gt' or lab == 'cmp_lt' or lab == 'cmp_ge' or lab == 'cmp_le':
                # Instant comparison: late / before deadline
                a0 = strip_ref_value(d[3][0])
                a1 = strip_ref_value(d[3][1])
                now0 = a0 is not None and is_call(a0, 'std::time::Instant::now')
                now1 = a1 is not None and is_call(a1, 'std::time::Instant::now')
                if now0 and lab == 'cmp_gt':
                    return ('late', True)
                if now0 and lab == 'cmp_lt':
                    return ('before_deadline', True)
                if now0 and lab == 'cmp_ge':
                    return ('late_ge', True)
                if now0 and lab == 'cmp_le':
                    return ('before_deadline_le', True)
                if now1 and lab == 'cmp_lt':
                    return ('late', True)
                if now1 and lab == 'cmp_gt':
                    return ('before_deadline', True)
            if lab in ('opt_none', 'opt_some') and d[3]:
                # deadline.checked_duration_since(now).is_none()  <=>  now > deadline   (and the three siblings)
                x = strip_ref_value(d[3][0])
                if x is not None and is_call(x, 'std::time::Instant::checked_duration_since') and len(x[3]) == 2:
                    s0 = strip_ref_value(x[3][0])
                    s1 = strip_ref_value(x[3][1])
                    none = lab == 'opt_none'
                    if s1 is not None and is_call(s1, 'std::time::Instant::now'):
                        return ('late', none)              # Some <=> deadline >= now
                    if s0 is not None and is_call(s0, 'std::time::Instant::now'):
                        return ('late_ge', not none)       # Some <=> now >= deadline
            if lab == 'qempty':
                if d[3] and ci_field_ref(d[3][0]) != 'queue':
                    return ('other_is_empty', True)
            return (lab, True)
        return None
    if d[0] == 'param':
        return ('arg%d' % d[1], True)
    f = ci_field_load(d)
    if f == 'recv_blocking':
        return ('recv_blocking', True)
    if d[0] == 'load':
        pl = d[1]
        if pl[0] == 'pfield' and pl[2] in ('is_stream', 'terminated'):
            return (pl[2], True)
    if d[0] == 'field' and d[1][0] == 'downcast' and d[1][2] == 'Ready' and is_call(d[1][1], 'signal::Signal::poll'):
        return ('waitOK', True)
    return None


ATOMIC_READ_METHODS = ('load', 'compare_exchange', 'compare_exchange_weak', 'swap', 'fetch_or', 'fetch_and', 'fetch_add',
                       'fetch_sub', 'fetch_update', 'fetch_xor', 'fetch_max', 'fetch_min', 'fetch_nand')
ATOMIC_WRITE_METHODS = ('store', 'compare_exchange', 'compare_exchange_weak', 'swap', 'fetch_or', 'fetch_and', 'fetch_add',
                        'fetch_sub', 'fetch_update', 'fetch_xor', 'fetch_max', 'fetch_min', 'fetch_nand', 'get_mut', 'as_ptr',
                        'into_inner', 'from_mut', 'from_ptr')


def atomic_method(name):
    """'load' for std::sync::atomic::Atomic::load / AtomicU8::load, else None"""
    if name.startswith('std::sync::atomic::Atomic'):
        return name.split('::')[-1]
    return None


def is_state_read(v):
    """value produced by an atomic read of a `state` field (directly, or the payload of a CAS result)"""
    if v[0] == 'call' and atomic_method(v[2]) in ATOMIC_READ_METHODS and v[3]:
        r = v[3][0]
        if r[0] in ('ref', 'rawptr') and r[1][0] == 'pfield' and r[1][2] == 'state':
            return True
    if v[0] == 'field' and v[1][0] == 'downcast' and v[1][2] in ('Ok', 'Err'):
        return is_state_read(v[1][1])
    return False


def strip_ref_value(v):
    """for `&local` arguments whose referent value we snapshot: ('refval', value)"""
    if v[0] in ('ref', 'rawptr') and len(v) > 2 and v[2] is not None:
        return v[2]
    return v


def classify_sizeof(op, a, b):
    # decided by the generic argument of each size_of call, recorded in the event args slot
    ta = a[3][0] if a[3] else None
    tb = b[3][0] if b[3] else None
    # a[3] holds ('targ', 'T') injected by the evaluator for size_of calls
    ga = ta[1] if ta and ta[0] == 'targ' else None
    gb = tb[1] if tb and tb[0] == 'targ' else None
    if ga == 'T' and gb == '*mut T':
        if op == 'Gt':
            return ('big', True)
        if op == 'Le':
            return ('big', False)
    if ga == '*mut T' and gb == 'T':
        if op == 'Lt':
            return ('big', True)
        if op == 'Ge':
            return ('big', False)
    return ('unrec:sizeof-compare(%s %s %s)' % (ga, op, gb), True)


def queue_len(v):
    if v[0] == 'call' and v[2] == 'std::collections::VecDeque::len' and v[3]:
        return ci_field_ref(v[3][0]) == 'queue'
    return False


def classify(d, val, listed):
    """label a switch edge.  `val` is the switch value taken (string) or None for otherwise."""
    # boolean switches: values '0' (false) listed, otherwise = true (or the reverse)
    if d[0] == 'discr':
        inner = d[1]
        variants = d[2]
        name = None
        if val is not None:
            for vn, vv in variants:
                if vv == val:
                    name = vn
        else:
            rest = [vn for vn, vv in variants if vv not in listed]
            if len(rest) == 1:
                name = rest[0]
            else:
                name = 'other(' + '|'.join(rest) + ')'
        if inner[0] == 'call' and inner[2] == 'core::num::checked_sub' and len(inner[3]) == 2 and is_const(inner[3][1], 1) \
                and ci_field_load(inner[3][0]) in ('send_count', 'recv_count') and name in ('Some', 'None'):
            # `count.checked_sub(1)` is None exactly when the count is zero
            return (('sc0' if ci_field_load(inner[3][0]) == 'send_count' else 'rc0'), 'T' if name == 'None' else 'F')
        src = inner
        if inner[0] == 'call' and inner[2] == 'std::ops::Try::branch':
            okv = try_ok_variant(inner)
            name = {'Continue': okv, 'Break': ('None' if okv == 'Some' else 'Err')}.get(name, name)
            src = try_operand(inner)
        bsrc = peel_bool_source(src) if src is not None else None
        if bsrc is not None:
            r = classify_bool_expr(bsrc)
            if r is not None and name in ('Some', 'Ok', 'None', 'Err'):
                truth = name in ('Some', 'Ok')
                return (r[0], 'T' if (truth == r[1]) else 'F')
        return (discr_label(inner), name)
    fcount = ci_field_load(d)
    if fcount is None and d[0] == 'bin' and d[1] in ('Add', 'Sub') and d[3][0] == 'const':
        fcount = ci_field_load(d[2])
    if fcount in ('recv_count', 'send_count'):
        # `match count { 0 => .., _ => .. }`
        short = 'rc0' if fcount == 'recv_count' else 'sc0'
        if val == '0':
            return (short, 'T')
        if val is None and listed == ['0']:
            return (short, 'F')
        return ('unrec:count-match', 'T')
    if is_state_read(d) and all(str(x).isdigit() for x in listed):
        # `match state_read { UNLOCKED => .., TERMINATED => .., _ => .. }`: an integer switch on the signal state itself
        if val is not None:
            return ('sig_state', val)
        return ('sig_state', 'other(' + '|'.join(listed) + ')')
    pollq = poll_query(d)
    if pollq is not None:
        # `sig.poll().is_ready()` / `.is_pending()`: the boolean spelling of `match sig.poll() { Ready(_) | Pending }`
        lab0, pos = pollq
        if val is None:
            truth0 = True if listed == ['0'] else (False if listed == ['1'] else None)
        else:
            truth0 = (val != '0')
        if truth0 is None:
            return (None, None)
        return (lab0, 'Ready' if truth0 == pos else 'Pending')
    r = classify_bool_expr(d)
    if r is None:
        return (None, None)
    lab, pol = r
    if val is None:
        # otherwise edge: value is not in listed
        if listed == ['0']:
            truth = True
        elif listed == ['1']:
            truth = False
        else:
            return (None, None)
    else:
        truth = (val != '0')
    out = truth if pol else (not truth)
    return (lab, 'T' if out else 'F')


def poll_query(d):
    """d == Poll::is_ready(&x) / Poll::is_pending(&x) (possibly negated) with x a labelled poll call -> (label, True if d <=> Ready)"""
    neg = False
    while d[0] == 'un' and d[1] == 'Not':
        d = d[2]
        neg = not neg
    if d[0] == 'call' and d[2] in ('std::task::Poll::is_ready', 'std::task::Poll::is_pending') and d[3]:
        x = strip_ref_value(d[3][0])
        if x is not None and x[0] == 'call' and x[2] in ('signal::Signal::poll', 'std::future::Future::poll'):
            pos = d[2].endswith('is_ready')
            return (discr_label(x), pos != neg)
    return None


def discr_label(v):
    if v[0] == 'call' and v[2] == 'std::ops::Try::branch' and v[3]:
        return discr_label(try_operand(v))
    if v[0] == 'call':
        short = {
            'internal::ChannelInternal::next_recv': 'next_recv',
            'internal::ChannelInternal::next_send': 'next_send',
            'std::collections::VecDeque::pop_front': 'pop',
            'std::collections::VecDeque::pop_back': 'pop_back',
            'internal::try_acquire_internal': 'trylocked',
            'signal::Signal::poll': 'sigpoll',
            'std::future::Future::poll': 'futpoll',
            'std::iter::Iterator::next': 'iter_next',
            'std::sync::atomic::Atomic::compare_exchange': 'cas',
            'std::sync::atomic::Atomic::compare_exchange_weak': 'cas',
        }.get(v[2])
        if short:
            return short
        return 'discr:' + v[2]
    if v[0] == 'load':
        pl = v[1]
        if pl[0] == 'pfield':
            if pl[2] == 'state':
                return 'fstate'
            if pl[2] == 'waker':
                return 'wakerkind'
            return 'discr-field:' + pl[2]
    if v[0] == 'field' and v[1][0] == 'downcast':
        return 'discr-of-payload'
    if v[0] == 'param':
        return 'discr-param'
    return 'discr:?'


# --------------------------------------------------------------------------------------------

class Facts:
    def __init__(self, j, config):
        self.j = j
        self.config = config
        self.features = j['features']
        self.bodies = {}
        self.consts = {}   # named constants (CTFE bodies), resolved on demand when an operand refers to them
        for b in j['bodies']:
            inject_sizeof_targs(b)
            if str(b.get('def_kind', '')).startswith(('Const', 'AssocConst')):
                self.consts[b['key']] = Body(b, self)
            else:
                self.bodies[b['key']] = Body(b, self)
        self.adts = {a['name']: a for a in j['adts']}
        self.impls = j['impls']
        CI_GROUPS.clear()
        CI_GROUPS.update(j.get('ci_groups') or [])

    def body(self, key):
        return self.bodies.get(key)

    def adts_by_canon(self):
        if not hasattr(self, '_adtc'):
            self._adtc = {canon(k): v for k, v in self.adts.items()}
        return self._adtc

    def immutable_fields(self):
        """field names that no body of the crate ever assigns, re-discriminates or mutably borrows (directly or as
        part of a longer place), and whose containing struct is never overwritten as a whole: two loads of such a field
        through the same pointer see the same value, so two branches on it must agree"""
        if hasattr(self, '_immf'):
            return self._immf
        written = set()
        allf = set()

        def names(pl):
            return [el['f'] for el in pl['p'] if isinstance(el, dict) and 'f' in el]

        def whole(pl):
            # `*p = X` / `&mut *p` handed away: every field of the ADT behind it may change
            ty = canon(pl.get('ty', '') or '')
            base = ty.split('<')[0]
            for an, a in self.adts.items():
                if canon(an).split('<')[0] == base:
                    for v in a.get('variants', []):
                        for f in v.get('fields', []):
                            written.add(f['name'] if isinstance(f, dict) else f)

        for b in list(self.bodies.values()):
            for blk in b.blocks:
                for s in blk['stmts']:
                    if s['k'] in ('assign', 'setdiscr'):
                        # a field of an owned local (`let mut f = new(); f.is_stream = true;`) is not a write through a
                        # pointer, and the loads normalised below are all through pointers
                        if '*' in s['lhs']['p']:
                            ns = names(s['lhs'])
                            written.update(ns)
                            if not ns:
                                whole(s['lhs'])
                    if s['k'] == 'assign' and s['rv']['k'] in ('ref', 'rawptr') and s['rv'].get('bk', s['rv'].get('mt', 'mut')) not in ('shared', 'not', 'const', 'fake'):
                        ns = names(s['rv']['p'])
                        written.update(ns)
                        allf.update(ns)
                    if s['k'] == 'assign' and s['rv']['k'] in ('ref', 'rawptr'):
                        allf.update(names(s['rv']['p']))
                t = blk['term']
                if t['k'] == 'call':
                    written.update(names(t['dest']))
        self._immf = written  # stored as the complement: names known to be written
        return self._immf

    def field_is_immutable(self, name):
        return name not in self.immutable_fields()

    def keys(self):
        return list(self.bodies.keys())


def inject_sizeof_targs(b):
    """size_of::<X>() takes no operands; expose X as a pseudo argument so that predicates can see
    it.  Same for needs_drop."""
    for blk in b['blocks']:
        t = blk['term']
        if t['k'] == 'call' and t.get('fn'):
            p = canon(t['fn']['path'])
            if p in ('std::mem::size_of', 'std::mem::needs_drop', 'std::mem::align_of',
                     'std::mem::size_of_val', 'std::mem::zeroed', 'std::mem::transmute',
                     'std::intrinsics::transmute', 'std::ops::Try::branch') and 'targ_done' not in t:
                t['targ_done'] = True
                t['args'] = [{'k': 'targ', 'v': a} for a in t['fn']['args']] + t['args']


_orig_operand = Evaluator.operand


def _operand(self, st, o):
    if o['k'] == 'targ':
        return ('targ', o['v'])
    return _orig_operand(self, st, o)


Evaluator.operand = _operand


def fmt(v, depth=0):
    """compact rendering of value / place trees for reports"""
    if depth > 6:
        return '...'
    if not isinstance(v, tuple):
        return str(v)
    k = v[0]
    if k == 'param':
        return 'arg%d' % v[1]
    if k == 'const':
        return v[2]
    if k == 'call':
        return '%s#%d(%s)' % (v[2].split('::')[-1], v[1], ','.join(fmt(a, depth + 1) for a in v[3]))
    if k == 'ci':
        return 'CI'
    if k in ('ref', 'rawptr'):
        return '&' + fmt(v[1], depth + 1)
    if k == 'local':
        return '_%d' % v[1]
    if k == 'deref':
        return '*' + fmt(v[1], depth + 1)
    if k == 'pfield':
        return fmt(v[1], depth + 1) + '.' + v[2]
    if k == 'pdown':
        return fmt(v[1], depth + 1) + ' as ' + v[2]
    if k == 'load':
        return 'load(' + fmt(v[1], depth + 1) + ')'
    if k == 'bin':
        return '(%s %s %s)' % (fmt(v[2], depth + 1), v[1], fmt(v[3], depth + 1))
    if k == 'un':
        return '%s(%s)' % (v[1], fmt(v[2], depth + 1))
    if k == 'agg':
        return '%s::%s(%s)' % (v[1].split('::')[-1], v[2], ','.join(fmt(a, depth + 1) for a in v[3]))
    if k == 'field':
        return fmt(v[1], depth + 1) + '.' + v[2]
    if k == 'downcast':
        return fmt(v[1], depth + 1) + ' as ' + v[2]
    if k == 'discr':
        return 'discr(' + fmt(v[1], depth + 1) + ')'
    if k == 'cast':
        return 'cast:%s(%s)' % (v[1], fmt(v[2], depth + 1))
    if k == 'targ':
        return '<' + v[1] + '>'
    return str(v)[:80]
