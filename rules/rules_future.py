"""F rules: futures and the stream.  DESIGN.md §3.7."""
from engine import rule
import fam
import sem
from sem import labels, has, contains
from mir import fmt, canon, is_const
from rules_recv import delivered_value

SEND_POLL = fam.SEND_POLL
RECV_POLL = fam.RECV_POLL
POLLS = ((SEND_POLL, 'send'), (RECV_POLL, 'recv'))


def all_paths(ctx, b):
    ps = ctx.paths(b)
    if ps is None:
        ctx.violate(b.key, None, 'cannot analyse: path explosion', sig='paths')
        return
    for p in ps:
        if p.end in ('return', 'panic'):
            yield p, ctx.sem(p)


def state_writes(evs):
    """WRMEM events to the future's `state` field with a FutureState aggregate"""
    out = []
    for e in evs:
        if e.name == 'WRMEM' and e.data['place'][0] == 'pfield' and e.data['place'][2] == 'state' and e.data['val'][0] == 'agg' and e.data['val'][1].endswith('FutureState'):
            out.append((e, e.data['val'][2]))
    return out


def flat_fields(agg):
    """field name -> value of a struct literal, looking through private grouping structs (`slot: Slot { sig, data }`)"""
    d = {}
    for n, v in zip(agg[4], agg[3]):
        d[n] = v
        if isinstance(v, tuple) and v and v[0] == 'agg' and len(v) > 4 and v[4] and not v[1].startswith(('std::', 'core::', 'alloc::')) \
                and v[1] not in ('signal::Signal', 'pointer::KanalPtr', 'future::FutureState'):
            for k2, v2 in flat_fields(v).items():
                d.setdefault(k2, v2)
    return d


def first_arm(evs):
    """which state the poll found the future in: the first `match self.state` edge, or `state.is_done()` / `is_waiting()`
    answering true"""
    no = set()
    for e in evs:
        if e.name == 'BR' and e.data['label'] == 'fstate':
            return e.data['outcome']
        if e.name == 'BR' and e.data['label'] == 'fs_done':
            if e.data['outcome'] == 'T':
                return 'Done'
            no.add('Done')
        if e.name == 'BR' and e.data['label'] == 'fs_waiting':
            if e.data['outcome'] == 'T':
                return 'Waiting'
            no.add('Waiting')
        if no == {'Done', 'Waiting'}:
            return 'Zero'
    return None


def sig_writes(evs):
    """events that write into this.sig: register_waker, set_ptr, whole-field assignment"""
    out = []
    for e in evs:
        if e.name in ('SIG.register_waker', 'SIG.set_ptr'):
            a = e.data['args'][0]
            if a[0] in ('ref', 'rawptr') and a[1][0] == 'pfield' and a[1][2] == 'sig':
                out.append(e)
        if e.name == 'WRMEM' and contains(e.data['place'], 'sig') and place_has_field(e.data['place'], 'sig'):
            out.append(e)
    return out


def place_has_field(pl, f):
    while isinstance(pl, tuple) and pl[0] in ('pfield', 'pdown'):
        if pl[0] == 'pfield' and pl[2] == f:
            return True
        pl = pl[1]
    return False


@rule('F1', ['C16', 'C15'], 'poll: Ready implies state Done was stored, Pending leaves the future Waiting', needs_async=True)
def f1(ctx):
    for key, side in POLLS:
        b = ctx.body(key)
        if b is None:
            ctx.violate(key, None, 'anchor missing: poll not found', sig='anchor')
            continue
        ctx.instance(key)
        arms = set()
        for p, evs in all_paths(ctx, b):
            arm = first_arm(evs)
            arms.add(arm)
            if p.end != 'return':
                continue
            shape = fam.final_ret(p, evs)
            sw = state_writes(evs)
            ctx.oblige(1, sample='%s [%s] -> %s, state writes %s' % (side, p.signature()[:60], shape[0], [s for _, s in sw]))
            if arm is None:
                ctx.violate(key, p, 'poll does not dispatch on the future state')
                continue
            if shape[0] == 'Ready':
                if not sw or sw[-1][1] != 'Done':
                    ctx.violate(key, p, 'poll returns Ready without having stored state Done (a later poll would run the operation again)')
            elif shape[0] == 'Pending':
                last = sw[-1][1] if sw else arm
                if last != 'Waiting':
                    ctx.violate(key, p, 'poll returns Pending but leaves the future in state %s' % last)
                if sw and sw[-1][1] == 'Waiting':
                    # set on registration only
                    if not any(e.name in ('PUSH_SEND', 'PUSH_RECV') for e in evs):
                        ctx.violate(key, p, 'state set to Waiting without registering in the wait list')
            else:
                ctx.violate(key, p, 'poll returns neither Ready nor Pending')
        if not {'Zero', 'Waiting', 'Done'} <= arms:
            ctx.violate(key, None, 'poll lacks an arm for one of Zero/Waiting/Done: %s' % sorted(map(str, arms)), sig='arms')


@rule('F2', ['C16', 'C05', 'C01'], 'Waiting arm: completion is decided only from the signal; the value is read / dropped exactly as the result says', needs_async=True)
def f2(ctx):
    for key, side in POLLS:
        b = ctx.body(key)
        if b is None:
            ctx.violate(key, None, 'anchor missing', sig='anchor')
            continue
        ctx.instance(key)
        for p, evs in all_paths(ctx, b):
            if p.end != 'return' or first_arm(evs) != 'Waiting':
                continue
            shape = fam.final_ret(p, evs)
            lb = labels(evs)
            ctx.oblige(1, sample='%s Waiting arm [%s] -> %s' % (side, p.signature(), shape))
            if any(e.name in ('LOCK', 'TRYLOCK') and False for e in evs):
                pass
            bad = [e for e in evs if e.name in ('NEXT_SEND', 'NEXT_RECV', 'PUSH_SEND', 'PUSH_RECV', 'SIGSEND', 'SIGRECV') or e.name.startswith('Q.')]
            if bad:
                ctx.violate(key, p, 'Waiting arm performs the channel operation again (%s)' % bad[0].name, at=bad[0].at)
            reads = [e for e in evs if e.name == 'FUT.read_local_data']
            drops = [e for e in evs if e.name == 'FUT.drop_local_data']
            if shape[0] == 'Pending':
                if has(lb, 'sigpoll', 'Ready'):
                    ctx.violate(key, p, 'Pending returned although the signal reported completion')
                if reads or drops:
                    ctx.violate(key, p, 'Pending path reads or drops the local data')
                continue
            # Ready
            via_poll = has(lb, 'sigpoll', 'Ready')
            via_wait = has(lb, 'sigpoll', 'Pending') and has(lb, 'will_wake', 'F') and has(lb, 'exists', 'F') and any(e.name == 'SIG.async_blocking_wait' for e in evs)
            if not (via_poll or via_wait):
                ctx.violate(key, p, 'Ready returned without the signal reporting completion (neither Signal::poll Ready nor the owned-by-peer wait)')
            ok_edge = [e for e in evs if e.name == 'BR' and e.data['label'] == 'waitOK']
            success = bool(ok_edge) and ok_edge[-1].data['outcome'] == 'T'
            rk = fam.success_kind(shape)
            if side == 'recv':
                if rk == 'value':
                    v = delivered_value(shape)
                    if not success:
                        ctx.violate(key, p, 'value returned although the signal did not report success')
                    if len(reads) != 1 or v != reads[0].data['res']:
                        ctx.violate(key, p, 'returned value is not exactly one read of the future\'s own slot (%d reads)' % len(reads))
                    elif ok_edge and reads[0].idx < ok_edge[-1].idx:
                        ctx.violate(key, p, 'own slot read before the success edge')
                elif rk.startswith('err'):
                    if success:
                        ctx.violate(key, p, 'error returned although the signal reported success (the delivered value is lost)')
                    if reads:
                        ctx.violate(key, p, 'own slot read on an error path (uninitialised read)')
                    if rk != 'err:Closed':
                        ctx.violate(key, p, 'a terminated pending receive must report Closed, reports %s' % rk)
                else:
                    ctx.violate(key, p, 'unrecognised result %s' % rk)
            else:
                if rk == 'ok':
                    if not success:
                        ctx.violate(key, p, 'Ok returned although the signal did not report success')
                    if drops or reads:
                        ctx.violate(key, p, 'success path touches the local data (the receiver owns it)')
                elif rk.startswith('err'):
                    if success:
                        ctx.violate(key, p, 'error returned although the receiver took the value')
                    if len(drops) > 1:
                        ctx.violate(key, p, 'local data dropped %d times' % len(drops))
                    if not drops and not has(lb, 'needs_drop', 'F'):
                        ctx.violate(key, p, 'failed send never drops its local data (leak)')
                    if rk != 'err:Closed':
                        ctx.violate(key, p, 'a terminated pending send must report Closed, reports %s' % rk)
                else:
                    ctx.violate(key, p, 'unrecognised result %s' % rk)


@rule('F3', ['C06', 'C16', 'C07'], 'waker refresh: a changed waker is stored while the lock that proved the entry is still listed is held; otherwise the shared signal is not written', needs_async=True)
def f3(ctx):
    for key, side in POLLS:
        b = ctx.body(key)
        if b is None:
            ctx.violate(key, None, 'anchor missing', sig='anchor')
            continue
        ctx.instance(key)
        saw_refresh = False
        for p, evs in all_paths(ctx, b):
            if p.end != 'return':
                continue
            arm = first_arm(evs)
            lb = labels(evs)
            sw = sig_writes(evs)
            if arm == 'Waiting':
                ctx.oblige(1, sample='%s Waiting [%s]: %d writes to the shared signal' % (side, p.signature(), len(sw)))
                ex = [e for e in evs if e.name in ('EXISTS_SEND', 'EXISTS_RECV')]
                if has(lb, 'sigpoll', 'Pending') and has(lb, 'will_wake', 'F'):
                    if not ex:
                        ctx.violate(key, p, 'waker changed but the wait list is not consulted')
                        continue
                    want = 'EXISTS_SEND' if side == 'send' else 'EXISTS_RECV'
                    if ex[0].name != want:
                        ctx.violate(key, p, 'wrong existence helper %s for a %s future' % (ex[0].name, side), at=ex[0].at)
                    a = ex[0].data['args'][0] if ex[0].data['args'] else None
                    if not (a is not None and a[0] in ('ref', 'rawptr') and place_has_field(a[1], 'sig')):
                        ctx.violate(key, p, 'existence check is not about this future\'s own signal', at=ex[0].at)
                    if has(lb, 'exists', 'T'):
                        regs = [e for e in sw if e.name == 'SIG.register_waker']
                        if len(regs) != 1:
                            ctx.violate(key, p, 'polled with a different waker while still listed, but the new waker is not registered (%d register_waker): the old waker would be woken' % len(regs))
                        else:
                            saw_refresh = True
                            r = regs[0]
                            if r.sec is None or r.sec != ex[0].sec:
                                ctx.violate(key, p, 'register_waker runs after the lock that answered `exists` was released: a peer that has just popped the entry may be cloning the waker (data race)', at=r.at)
                            w = r.data['args'][1] if len(r.data['args']) > 1 else None
                            if not (w is not None and w[0] == 'call' and w[2] == 'std::task::Context::waker'):
                                ctx.violate(key, p, 'registered waker is not cx.waker()', at=r.at)
                        if any(e.name == 'SIG.set_ptr' or e.name == 'WRMEM' for e in sw):
                            ctx.violate(key, p, 'shared signal rewritten while listed')
                        if fam.final_ret(p, evs)[0] != 'Pending':
                            ctx.violate(key, p, 'still listed but poll does not return Pending')
                    elif has(lb, 'exists', 'F'):
                        if sw:
                            ctx.violate(key, p, 'signal is owned by a peer (not listed any more) but poll writes into it (%s)' % sw[0].name, at=sw[0].at)
                        # the peer will wake the OLD waker and the new one cannot be stored any more: the poll has to finish
                        # now (the peer is a few instructions from done), or at least wake the new waker itself
                        if fam.final_ret(p, evs)[0] == 'Pending':
                            selfwake = [e for e in evs if e.name == 'CALL' and e.data['callee'] in ('std::task::Waker::wake_by_ref', 'std::task::Waker::wake')]
                            if not selfwake:
                                ctx.violate(key, p, 'polled with a different waker after a peer took the entry, and poll returns Pending: only the stale waker will be woken, the task that now owns the future never is')
                else:
                    if sw:
                        ctx.violate(key, p, 'Waiting arm writes into the shared signal (%s) without the changed-waker protocol' % sw[0].name, at=sw[0].at)
            else:
                # Zero arm (incl. re-arm): writes to the signal must precede the registration, in its section
                regs = [e for e in evs if e.name in ('PUSH_SEND', 'PUSH_RECV')]
                for w in sw:
                    if regs and (w.idx > regs[0].idx):
                        ctx.violate(key, p, 'signal written (%s) after it was published in the wait list' % w.name, at=w.at)
        if not saw_refresh:
            ctx.violate(key, None, 'no path refreshes the waker of a still-listed future', sig='no-refresh')


@rule('F4', ['C16'], 'a finished future panics when polled again (unless it is the stream\'s reusable future)', needs_async=True)
def f4(ctx):
    for key, side in POLLS:
        b = ctx.body(key)
        if b is None:
            ctx.violate(key, None, 'anchor missing', sig='anchor')
            continue
        ctx.instance(key)
        n = 0
        for p, evs in all_paths(ctx, b):
            if first_arm(evs) != 'Done':
                continue
            n += 1
            lb = labels(evs)
            ctx.oblige(1, sample='%s Done arm [%s] ends in %s' % (side, p.signature()[:50], p.end))
            if p.end == 'panic':
                if has(lb, 'is_stream', 'T') and not has(lb, 'is_stream', 'F'):
                    ctx.violate(key, p, 'stream future panics on re-poll')
                continue
            if not has(lb, 'is_stream', 'T'):
                ctx.violate(key, p, 'a finished future returns %s when polled again instead of panicking' % (fam.final_ret(p, evs),))
        if n == 0:
            ctx.violate(key, None, 'poll has no Done arm', sig='no-done-arm')


def signal_reset(e):
    """does event e re-initialise this.sig to LOCKED?"""
    if e.name == 'WRMEM' and e.data['place'][0] == 'pfield' and e.data['place'][2] == 'sig':
        v = e.data['val']
        return v[0] == 'call' and v[2] in ('signal::Signal::new_async', 'signal::Signal::new_async_ptr')
    if e.name == 'WRMEM' and e.data['place'][0] == 'deref' and e.data['place'][1][0] == 'call' and e.data['place'][1][2].endswith('::get_mut'):
        # `*self.state.get_mut() = LOCKED` in a `&mut self` helper of Signal, spliced into poll
        a = e.data['place'][1][3]
        return bool(a) and a[0][0] in ('ref', 'rawptr') and place_has_field(a[0][1], 'sig') and place_has_field(a[0][1], 'state') and is_const(e.data['val'], 2)
    if e.name == 'CALL' and e.data['callee'].startswith('std::sync::atomic::Atomic') and e.data['callee'].endswith('::store'):
        a = e.data['args']
        if a and a[0][0] in ('ref', 'rawptr') and place_has_field(a[0][1], 'sig') and is_const(a[1], 2):
            return True
    return False


@rule('F5', ['C16', 'C15', 'C04'], 'stream re-arm: resetting the future to Zero re-initialises its signal to LOCKED before it is registered again', needs_async=True)
def f5(ctx):
    key = RECV_POLL
    b = ctx.body(key)
    if b is None:
        ctx.violate(key, None, 'anchor missing', sig='anchor')
        return
    ctx.instance(key)
    n = 0
    for kk, bb in ctx.facts.bodies.items():
        for blk in bb.blocks:
            for s in blk['stmts']:
                if s['k'] == 'assign' and s['rv']['k'] == 'agg' and s['rv'].get('ak') == 'adt' and canon(s['rv']['name']) == 'future::FutureState' and s['rv']['variant'] == 'Zero':
                    ctx.oblige(1)
                    ctx.instance('%s sets FutureState::Zero' % kk)
                    ret_ty = bb.locals[0]['ty'] if bb.locals else ''
                    if 'ReceiveFuture<' in ret_ty or 'SendFuture<' in ret_ty:
                        continue  # a constructor: the Zero goes into the struct literal it returns, no existing future is reset
                    if not fam.allowed_for(ctx, kk, {key, "future::SendFuture::<'a, T>::new", "future::ReceiveFuture::<'a, T>::new_ref"}):
                        ctx.violate(kk, None, 'future state reset to Zero outside the constructors / the stream re-arm', at=s.get('at'), sig='zero-writer')
    for p, evs in all_paths(ctx, b):
        if p.end != 'return':
            continue
        for e in evs:
            if signal_reset(e):
                lbe = labels(evs, upto=e.idx)
                # harmless only when no peer can own the signal: not registered at all, or still listed (checked under
                # the lock that is still held)
                if has(lbe, 'fstate', 'Waiting') and not (has(lbe, 'exists', 'T') and e.sec is not None):
                    ctx.violate(key, p, 'the signal is re-initialised while the future is in state Waiting and a peer may own it', at=e.at, sig='rearm-while-waiting')
        sw = state_writes(evs)
        zero = [e for e, s in sw if s == 'Zero']
        if not zero:
            continue
        n += 1
        ctx.oblige(1, sample='re-arm path [%s]' % p.signature()[:70])
        lb = labels(evs, upto=zero[0].idx)
        if not ((has(lb, 'fstate', 'Done') or has(lb, 'fs_done', 'T')) and has(lb, 'is_stream', 'T')):
            ctx.violate(key, p, 'future reset to Zero outside the Done+is_stream arm', at=zero[0].at)
        regs = [e for e in evs if e.name == 'PUSH_RECV' and e.idx > zero[0].idx]
        if regs:
            resets = [e for e in evs if signal_reset(e) and e.idx < regs[0].idx]
            # ... or the signal was looked at after the reset to Zero and found NOT final (`if sig.poll().is_ready() { sig = new }`):
            # an item that came straight from the channel never registered the signal, which is still LOCKED and unshared
            fresh = [e for e in evs if e.name == 'BR' and e.data['label'] == 'sigpoll' and e.data['outcome'] == 'Pending'
                     and zero[0].idx < e.idx < regs[0].idx and e.sec is None]
            if not resets and not fresh:
                ctx.violate(key, p, 'stream future registers again with its signal still in the final state of the previous item (UNLOCKED): a spurious poll returns the previous value again / reads a stale slot', at=regs[0].at)
    if n == 0:
        ctx.violate(key, None, 'no stream re-arm path found', sig='no-rearm')


@rule('F6', ['C15', 'C07', 'C05'], 'dropping a future: cancel under the lock or wait for the owning peer; dispose of the value exactly when it did not move', needs_async=True)
def f6(ctx):
    for key, side in ((fam.SEND_FDROP, 'send'), (fam.RECV_FDROP, 'recv')):
        b = ctx.body(key)
        if b is None:
            ctx.violate(key, None, 'anchor missing: Drop impl of the future not found', sig='anchor')
            continue
        ctx.instance(key)
        saw_wait = saw_cancel = False
        for p, evs in all_paths(ctx, b):
            if p.end != 'return':
                continue
            lb = labels(evs)
            ctx.oblige(1, sample='%s future drop [%s]' % (side, p.signature()))
            drops = [e for e in evs if e.name == 'FUT.drop_local_data']
            canc = [e for e in evs if e.name in ('CANCEL_SEND', 'CANCEL_RECV')]
            waits = [e for e in evs if e.name == 'SIG.async_blocking_wait']
            # `self.state.is_waiting()` / `is_done()` or a `match self.state { .. }`
            waiting = has(lb, 'fs_waiting', 'T') or has(lb, 'fstate', 'Waiting')
            done = has(lb, 'fs_done', 'T') or has(lb, 'fstate', 'Done')
            notwaiting = has(lb, 'fs_waiting', 'F') or has(lb, 'fstate', 'Zero') or has(lb, 'fstate', 'Done') or any(
                str(o).startswith('other(') and 'Waiting' not in str(o) for o in lb.get('fstate', []))
            bad = [e for e in evs if e.name in ('NEXT_SEND', 'NEXT_RECV', 'PUSH_SEND', 'PUSH_RECV', 'SIGSEND', 'SIGRECV', 'WR', 'TERMINATE_SIGNALS') or e.name.startswith('Q.')]
            if bad:
                ctx.violate(key, p, 'future drop performs %s' % bad[0].name, at=bad[0].at)
            if done:
                if drops or canc or waits:
                    ctx.violate(key, p, 'a completed future still cancels / waits / drops data on drop')
                continue
            claimed = False
            sp = [e for e in evs if e.name == 'SIG.poll']
            if waiting and not canc and not waits and len(sp) == 1 and has(lb, 'sigpoll', 'Ready') and sp[0].sec is None \
                    and sp[0].data['args'] and sp[0].data['args'][0][0] in ('ref', 'rawptr') and place_has_field(sp[0].data['args'][0][1], 'sig') \
                    and (has(lb, 'waitOK', 'T') != has(lb, 'waitOK', 'F')):
                # lock-free shortcut: the future's own signal is already in a final state, so the peer has taken the entry out of
                # the wait list and finished with it (the same observation on which Future::poll completes, F2); what is left is
                # the disposal, decided by the signal's verdict like after the wait for the owning peer
                claimed = True
                saw_wait = saw_wait or False
                moved = has(lb, 'waitOK', 'T')
            elif waiting:
                want = 'CANCEL_SEND' if side == 'send' else 'CANCEL_RECV'
                if len(canc) != 1 or canc[0].name != want:
                    ctx.violate(key, p, 'a pending future must try to remove its own entry under the lock exactly once')
                    continue
                a = canc[0].data['args'][0] if canc[0].data['args'] else None
                if canc[0].sec is None or not (a is not None and a[0] in ('ref', 'rawptr') and place_has_field(a[1], 'sig')):
                    ctx.violate(key, p, 'cancel is not applied to the future\'s own signal under the lock', at=canc[0].at)
                if has(lb, 'cancel', 'T'):
                    saw_cancel = True
                    if waits:
                        ctx.violate(key, p, 'waits for a peer although the entry was removed')
                    moved = False
                elif has(lb, 'cancel', 'F'):
                    saw_wait = True
                    if len(waits) != 1:
                        ctx.violate(key, p, 'entry already claimed by a peer but the drop does not wait for it to finish: the peer would write into freed memory')
                        continue
                    if waits[0].sec is not None:
                        ctx.violate(key, p, 'waits for the peer while holding the channel lock', at=waits[0].at)
                    wa = waits[0].data['args'][0]
                    if not (wa[0] in ('ref', 'rawptr') and place_has_field(wa[1], 'sig')):
                        ctx.violate(key, p, 'waits on a signal other than its own', at=waits[0].at)
                    moved = has(lb, 'waitOK', 'T')
                    claimed = True
                else:
                    ctx.violate(key, p, 'cancel result not examined')
                    continue
            else:
                if not notwaiting:
                    ctx.violate(key, p, 'drop returns on a path that never examined whether the future is registered: a pending future would leave its address in the wait list (the next peer writes into freed memory and its message is lost)')
                    continue
                if canc or waits:
                    ctx.violate(key, p, 'a never-registered future cancels / waits')
                moved = False
            # disposal
            if side == 'send':
                should_drop = not moved
            else:
                # a receive future owns a value only if a sender delivered into it while it was being cancelled
                should_drop = waiting and claimed and moved
            if should_drop:
                if len(drops) > 1:
                    ctx.violate(key, p, 'local data dropped %d times' % len(drops))
                if not drops and not has(lb, 'needs_drop', 'F'):
                    ctx.violate(key, p, 'value still owned by the future is never dropped (leak)')
            else:
                if drops:
                    ctx.violate(key, p, 'future drops a value it does not own (%s)' % ('the receiver took it' if side == 'send' else 'nothing was delivered'), at=drops[0].at)
        if not (saw_wait and saw_cancel):
            ctx.violate(key, None, 'future drop lacks the cancel-succeeded or the wait-for-peer case', sig='cases')


@rule('F7', ['C16'], 'stream: ends once and stays ended; maps Ok->Some, Err->None(+terminated), Pending->Pending', needs_async=True)
def f7(ctx):
    key = "<future::ReceiveStream<'_, T> as futures_core::Stream>::poll_next"
    b = ctx.body(key)
    if b is None:
        ctx.violate(key, None, 'anchor missing', sig='anchor')
        return
    ctx.instance(key)
    for p, evs in all_paths(ctx, b):
        if p.end != 'return':
            continue
        lb = labels(evs)
        shape = fam.final_ret(p, evs)
        ctx.oblige(1, sample='poll_next [%s] -> %s' % (p.signature(), shape[0]))
        polls = [e for e in p.events if e.kind == 'call' and e.name in ('std::future::Future::poll', 'futures_core::Future::poll')]
        tw = [e for e in evs if e.name == 'WRMEM' and place_has_field(e.data['place'], 'terminated')]
        if has(lb, 'terminated', 'T'):
            if polls:
                ctx.violate(key, p, 'terminated stream polls its future again')
            if not (shape[0] == 'Ready' and shape[1] == ('None',)):
                ctx.violate(key, p, 'terminated stream does not keep reporting the end')
            continue
        if len(polls) != 1:
            ctx.violate(key, p, 'poll_next polls the inner future %d times' % len(polls))
            continue
        pl = [e for e in evs if e.name == 'BR' and e.data['label'] == 'futpoll' or (e.name == 'BR' and str(e.data['label']).endswith('Future::poll'))]
        outcome = pl[-1].data['outcome'] if pl else None
        if outcome == 'Pending':
            if shape[0] != 'Pending' and p.ret != polls[0].val:
                # (`polled.map(..)` hands the Pending value through unchanged)
                ctx.violate(key, p, 'inner Pending is not forwarded')
            if tw:
                ctx.violate(key, p, 'stream marks itself terminated while pending')
        elif outcome == 'Ready':
            inner = [e for e in evs if e.name == 'BR' and e.data['label'] == 'discr-of-payload']
            # (a nested pattern `Ready(Err(Closed | SendClosed))` branches once more, on the kind of error: the Ok/Err test is the one meant)
            okerr = [e for e in inner if e.data['outcome'] in ('Ok', 'Err')]
            oc = okerr[-1].data['outcome'] if okerr else (inner[-1].data['outcome'] if inner else None)
            if oc == 'Ok':
                v = shape[1][1] if shape[0] == 'Ready' and shape[1] and shape[1][0] == 'Some' else None
                want = ('field', ('downcast', ('field', ('downcast', polls[0].val, 'Ready'), '0'), 'Ok'), '0')
                if v != want:
                    ctx.violate(key, p, 'Ok(d) is not mapped to Some(d)')
                if tw:
                    ctx.violate(key, p, 'stream terminates itself on a value')
            elif oc == 'Err':
                if not (shape[0] == 'Ready' and shape[1] == ('None',)):
                    ctx.violate(key, p, 'Err is not mapped to the end of the stream')
                if len(tw) != 1 or not is_const(tw[0].data['val'], 1):
                    ctx.violate(key, p, 'stream does not remember that it ended (it would poll a finished future again)')
            else:
                # `let item = res.ok(); if item.is_none() { self.terminated = true } Poll::Ready(item)`:
                # Result::ok maps Ok(d) -> Some(d), Err(_) -> None by definition; the flag must follow is_none()
                rdy = ('field', ('downcast', polls[0].val, 'Ready'), '0')
                r = p.ret
                item = r[3][0] if r is not None and r[0] == 'agg' and r[2] == 'Ready' and r[3] else None
                if item is not None and item[0] == 'call' and item[2] == 'std::result::Result::ok' and item[3] and item[3][0] == rdy:
                    nb = [e for e in evs if e.name == 'BR' and e.data['label'] == 'opt_none' and contains(e.data['val'], item)]
                    if not nb:
                        # `if res.is_err() { terminated = true }` decides the same thing on the result itself
                        ne = [e for e in evs if e.name == 'BR' and e.data['label'] in ('res_is_err', 'res_is_ok') and contains(e.data['val'], rdy)]
                        if ne:
                            e0 = ne[-1]
                            isnone = (e0.data['outcome'] == 'T') == (e0.data['label'] == 'res_is_err')
                            nb = [type('E', (), {'data': {'outcome': 'T' if isnone else 'F'}})()]
                    if not nb and len(tw) == 1:
                        # `self.terminated = res.is_err()`: the flag is assigned the predicate itself (true exactly on the end;
                        # on a value it stays false, which is what it was on this `terminated:F` path)
                        w = tw[0].data['val']
                        if w is not None and w[0] == 'call' and w[2] == 'std::result::Result::is_err' and w[3] \
                                and w[3][0][0] == 'ref' and len(w[3][0]) > 2 and w[3][0][2] == rdy:
                            continue
                    if not nb:
                        ctx.violate(key, p, 'the end of the stream (item == None) is not detected')
                    elif nb[-1].data['outcome'] == 'T':
                        if len(tw) != 1 or not is_const(tw[0].data['val'], 1):
                            ctx.violate(key, p, 'stream does not remember that it ended (it would poll a finished future again)')
                    elif tw:
                        ctx.violate(key, p, 'stream terminates itself on a value')
                else:
                    ctx.violate(key, p, 'unrecognised inner result')
        else:
            ctx.violate(key, p, 'poll result not examined')


@rule('F8', ['C15', 'C16', 'C18'], 'future plumbing: FutureState::is_waiting/is_done compare with the right variant; new futures start in Zero, not stream; the stream marks its future as reusable and starts unterminated', needs_async=True)
def f8(ctx):
    for nm, var in (('is_waiting', 'Waiting'), ('is_done', 'Done')):
        key = 'future::FutureState::' + nm
        b = ctx.body(key)
        if b is None:
            # the helper is optional (`match self.state` needs none); when it is gone nothing can call it
            ctx.note('%s not present' % key)
            continue
        ctx.instance(key)
        for p, evs in all_paths(ctx, b):
            if p.end != 'return':
                continue
            ctx.oblige(1, sample='%s -> %s' % (nm, fmt(p.ret)))
            r = p.ret
            ok = False
            if r is not None and r[0] == 'call' and r[2] in ('std::cmp::PartialEq::eq',) and len(r[3]) == 2:
                a, c = r[3]
                for x, y in ((a, c), (c, a)):
                    xs = x
                    if x[0] in ('ref', 'rawptr') and len(x) > 2 and x[2] == ('param', 1):
                        xs = ('param', 1)  # `fn is_waiting(self)` by value: compares &self
                    if xs == ('param', 1) and y[0] in ('ref', 'rawptr') and len(y) > 2 and y[2] is not None and y[2][0] == 'agg' and y[2][2] == var:
                        ok = True
            if r is not None and r[0] == 'bin' and r[1] == 'Eq':
                ok = contains(r, ('param', 1)) and any(isinstance(x, tuple) and x[0] == 'agg' and x[2] == var for x in (r[2], r[3]))
            if r is not None and r[0] == 'const' and r[1] == 'bool':
                # `matches!(self, Self::Waiting)` / a match returning literals: a branch on the variant of *self
                brs = [e for e in p.events if e.kind == 'br' and isinstance(e.val, tuple) and e.val[0] == 'discr' and contains(e.val[1], ('param', 1))]
                if brs:
                    ok = (brs[-1].outcome == var) == (r[2] == '1') and not (brs[-1].outcome or '').startswith('other(') or \
                        ((brs[-1].outcome or '').startswith('other(') and var not in brs[-1].outcome and r[2] == '0')
            if not ok:
                ctx.violate(key, p, 'FutureState::%s is not `*self == FutureState::%s`: %s' % (nm, var, fmt(r)))
    key = "future::ReceiveFuture::<'a, T>::new_ref"
    b = ctx.body(key)
    if b is None:
        ctx.violate(key, None, 'anchor missing', sig='anchor')
    else:
        ctx.instance(key)
        for p, evs in all_paths(ctx, b):
            if p.end != 'return':
                continue
            ctx.oblige(1, sample='new_ref -> %s' % fmt(p.ret))
            r = p.ret
            if not (r is not None and r[0] == 'agg' and r[1].endswith('ReceiveFuture')):
                ctx.violate(key, p, 'new_ref does not build a ReceiveFuture')
                continue
            f = flat_fields(r)
            if not (f.get('state', ('x',))[0] == 'agg' and f['state'][2] == 'Zero'):
                ctx.violate(key, p, 'a new receive future does not start in state Zero')
            if not is_const(f.get('is_stream', ('x',)), 0):
                ctx.violate(key, p, 'a plain receive future is created with is_stream=true (it would silently restart instead of panicking when polled after completion)')
            s = f.get('sig')
            if not (s is not None and s[0] == 'call' and s[2] == 'signal::Signal::new_async'):
                ctx.violate(key, p, 'a new receive future does not start with a fresh async signal')
            if f.get('internal') != ('param', 1):
                ctx.violate(key, p, 'a new receive future is not bound to the given channel')
    key = "future::ReceiveStream::<'a, T>::new_borrowed"
    b = ctx.body(key)
    if b is None:
        ctx.violate(key, None, 'anchor missing', sig='anchor')
    else:
        ctx.instance(key)
        for p, evs in all_paths(ctx, b):
            if p.end != 'return':
                continue
            ctx.oblige(1, sample='new_borrowed -> %s' % fmt(p.ret)[:120])
            r = p.ret
            if not (r is not None and r[0] == 'agg' and r[1].endswith('ReceiveStream')):
                ctx.violate(key, p, 'new_borrowed does not build a ReceiveStream')
                continue
            f = dict(zip(r[4], r[3]))
            if not is_const(f.get('terminated', ('x',)), 0):
                ctx.violate(key, p, 'a new stream starts terminated')
            if f.get('receiver') != ('param', 1):
                ctx.violate(key, p, 'the stream is not bound to the given receiver')
            fut = f.get('future')
            inner = fut[3][-1] if fut is not None and fut[0] == 'call' and fut[3] else None
            ok = False
            if inner is not None and inner[0] == 'upd':
                for path_, val in inner[2]:
                    if path_ == (('pfield', 'is_stream'),) and is_const(val, 1):
                        ok = True
                base = inner[1]
                if not (base[0] == 'call' and base[2].endswith('ReceiveFuture::new_ref')):
                    ok = False
            if inner is not None and inner[0] == 'agg' and inner[1].endswith('ReceiveFuture'):
                # the constructor chain spliced down to the struct literal
                ff = flat_fields(inner)
                st_ = ff.get('state')
                sg_ = ff.get('sig')
                ok = (st_ is not None and st_[0] == 'agg' and st_[2] == 'Zero' and is_const(ff.get('is_stream', ('x',)), 1)
                      and sg_ is not None and sg_[0] == 'call' and sg_[2] == 'signal::Signal::new_async')
            if not ok:
                ctx.violate(key, p, 'the stream\'s future is not a fresh receive future marked is_stream=true (the second item would panic "polled after result is already returned")')


@rule('F9', ['C16', 'C18'], 'FusedStream::is_terminated of the stream is true only when nothing can be yielded any more (no sender left and buffer empty, or the stream already ended)', needs_async=True)
def f9(ctx):
    import itertools
    from rules_life import path_consistent, eval_bool
    key = "<future::ReceiveStream<'_, T> as futures_core::FusedStream>::is_terminated"
    b = ctx.body(key)
    if b is None:
        ctx.violate(key, None, 'anchor missing', sig='anchor')
        return
    ctx.instance(key)
    paths = [(p, evs) for p, evs in all_paths(ctx, b) if p.end == 'return']
    atoms = ['cap_max', 'qempty', 'sc0', 'rc0', 'full']
    for p, evs in paths:
        ctx.oblige(1, sample='is_terminated -> %s' % fmt(p.ret)[:100])
        if any(e.name in ('WR', 'WRMEM', 'NEXT_SEND', 'NEXT_RECV', 'PUSH_RECV', 'Q.pop_front', 'Q.push_back', 'Q.clear') for e in evs):
            ctx.violate(key, p, 'is_terminated changes state')
    for vals in itertools.product([False, True], repeat=len(atoms)):
        a = dict(zip(atoms, vals))
        results = set()
        unknown = False
        for p, evs in paths:
            ev2 = [e for e in evs if not (e.name == 'BR' and e.data['label'] == 'terminated')]
            term = [e for e in evs if e.name == 'BR' and e.data['label'] == 'terminated' and e.data['outcome'] == 'T']
            c = path_consistent(ev2, a)
            if c is None:
                unknown = True
                break
            if c:
                if term and p.ret is not None and p.ret[0] == 'const' and p.ret[2] == '1':
                    continue  # `self.terminated || ..` : an ended stream may say so
                results.add(eval_bool(p.ret, a))
        want = a['sc0'] and a['qempty']
        if unknown or None in results:
            ctx.violate(key, None, 'is_terminated is not a recognised expression over {send_count==0, buffer empty}', sig='unrecognised')
            break
        if results and results != {want}:
            ctx.violate(key, None, 'is_terminated disagrees with "no sender left and nothing buffered": under %s it returns %s, expected %s (a consumer that trusts the fused state stops while values are still buffered, or polls for ever)' % (
                {k: v for k, v in a.items() if k in ('sc0', 'qempty')}, sorted(results), want), sig='truth-table')
            break
    ctx.oblige(1)
