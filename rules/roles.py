"""Role resolution: the rules refer to ~60 crate-private helpers by their (pinned-tree) def paths.  When such a path is
missing - the helper was renamed, moved to another module, turned from a method into a free function - the helper is
looked up by ROLE: its normalised signature plus, inside the few groups that share a signature, one structural feature
(which constant it stores into `recv_blocking`, under which polarity of `recv_blocking` it scans the wait list, whether it
parks / sleeps, which waker variant it builds, which promoted constant it compares with ...).  If exactly one function
in the crate fits, it (and every reference to it) is renamed to the canonical path before the facts are handed to the
rules; otherwise nothing is done and the rules report `anchor missing` as before.  The public API is never re-resolved:
public names are the interface."""
import json
import re

import mir
from mir import canon

CI = 'internal::ChannelInternal<T>'
SIGT = 'signal::Signal<T>'
TERM = 'signal::SignalTerminator<T>'
KP = 'pointer::KanalPtr<T>'


def nsig(b):
    s = b.get('sig', '')
    s = re.sub(r"for<[^>]*> ", "", s)
    s = re.sub(r"'[a-z_0-9]+,? ?", "", s)
    s = s.replace('<, ', '<').replace('<>', '')
    return s


def callees(b):
    out = set()
    for blk in b['blocks']:
        t = blk['term']
        if t['k'] == 'call' and t.get('fn'):
            out.add(canon(t['fn']['path']))
    return out


def field_const_writes(b, field):
    out = set()
    for blk in b['blocks']:
        for s in blk['stmts']:
            if s['k'] == 'assign':
                pr = s['lhs']['p']
                if pr and isinstance(pr[-1], dict) and pr[-1].get('f') == field and s['rv']['k'] == 'use' and s['rv']['o'].get('k') == 'const':
                    out.add(s['rv']['o'].get('val'))
    return out


def agg_variants(b, adt_suffix):
    out = set()
    for blk in b['blocks']:
        for s in blk['stmts']:
            if s['k'] == 'assign' and s['rv']['k'] == 'agg' and s['rv'].get('ak') == 'adt' and canon(s['rv']['name']).endswith(adt_suffix):
                out.add(s['rv']['variant'])
    return out


def promoted_variants(b):
    out = set()
    for pb in b.get('promoted') or []:
        out |= agg_variants(pb, 'FutureState')
    return out


def has_loop(b):
    return mir.Body(b, None).has_cycle()


def scan_polarity(tmpfacts, key):
    """'F' if the body looks at the wait list under recv_blocking==false (send kind), 'T' for the receive kind"""
    body = tmpfacts.bodies.get(key)
    if body is None:
        return None
    import sem
    pols = set()
    for p in body.paths(1) or []:
        evs = sem.project(p)
        if any(e.name.startswith('WL.') for e in evs) or any(e.name == 'CALL' and 'Iterator' in e.data['callee'] for e in evs):
            for e in evs:
                if e.name == 'BR' and e.data['label'] == 'recv_blocking':
                    pols.add(e.data['outcome'])
    if len(pols) == 1:
        return pols.pop()
    return None


# (canonical key, normalised signature (or tuple of alternatives), extra predicate name)
SIG_ARC = '&std::sync::Arc<'
ROLES = [
    ('internal::acquire_internal', None, 'acquire'),
    ('internal::try_acquire_internal', None, 'try_acquire'),
    ('internal::ChannelInternal::<T>::new', None, 'ci_new'),
    ('internal::ChannelInternal::<T>::terminate_signals', 'fn(&mut %s)' % CI, None),
    ('internal::ChannelInternal::<T>::next_send', 'fn(&mut %s) -> std::option::Option<%s>' % (CI, TERM), 'flip1'),
    ('internal::ChannelInternal::<T>::next_recv', 'fn(&mut %s) -> std::option::Option<%s>' % (CI, TERM), 'flip0'),
    ('internal::ChannelInternal::<T>::cancel_send_signal', 'fn(&mut %s, &%s) -> bool' % (CI, SIGT), 'polF'),
    ('internal::ChannelInternal::<T>::cancel_recv_signal', 'fn(&mut %s, &%s) -> bool' % (CI, SIGT), 'polT'),
    ('internal::ChannelInternal::<T>::send_signal_exists', 'fn(&%s, &%s) -> bool' % (CI, SIGT), 'polF'),
    ('internal::ChannelInternal::<T>::recv_signal_exists', 'fn(&%s, &%s) -> bool' % (CI, SIGT), 'polT'),
    ('internal::ChannelInternal::<T>::push_send', 'fn(&mut %s, %s)' % (CI, TERM), 'push_send'),
    ('internal::ChannelInternal::<T>::push_recv', 'fn(&mut %s, %s)' % (CI, TERM), 'push_recv'),
    ('mutex::RawMutexLock::lock_no_inline', 'fn(&mutex::RawMutexLock)', 'calls_spin'),
    ('backoff::spin_cond', 'fn(F)', 'calls_fn'),
    ('backoff::get_parallelism', 'fn() -> usize', 'calls_avail'),
    ('pointer::KanalPtr::<T>::new_from', 'fn(*mut T) -> %s' % KP, 'kp_store'),
    ('pointer::KanalPtr::<T>::new_write_address_ptr', 'fn(*mut T) -> %s' % KP, 'kp_nostore_size'),
    ('pointer::KanalPtr::<T>::new_unchecked', 'fn(*mut T) -> %s' % KP, 'kp_nosize'),
    ('pointer::KanalPtr::<T>::new_owned', 'fn(T) -> %s' % KP, None),
    ('pointer::KanalPtr::<T>::read', 'unsafe fn(&%s) -> T' % KP, None),
    ('pointer::KanalPtr::<T>::write', 'unsafe fn(&%s, T)' % KP, None),
    ('pointer::KanalPtr::<T>::copy', 'unsafe fn(&%s, *const T)' % KP, None),
    ('pointer::store_as_kanal_ptr', 'unsafe fn(*const T) -> std::mem::MaybeUninit<*mut T>', None),
    ('future::FutureState::is_waiting', 'fn(&future::FutureState) -> bool', 'prom_Waiting'),
    ('future::FutureState::is_done', 'fn(&future::FutureState) -> bool', 'prom_Done'),
    ("future::SendFuture::<'a, T>::read_local_data", 'unsafe fn(&future::SendFuture<T>) -> T', None),
    ("future::SendFuture::<'a, T>::drop_local_data", 'unsafe fn(&mut future::SendFuture<T>)', None),
    ("future::ReceiveFuture::<'a, T>::read_local_data", 'unsafe fn(&future::ReceiveFuture<T>) -> T', None),
    ("future::ReceiveFuture::<'a, T>::drop_local_data", 'unsafe fn(&mut future::ReceiveFuture<T>)', None),
    ("future::SendFuture::<'a, T>::new", None, 'sf_new'),
    ("future::ReceiveFuture::<'a, T>::new_ref", None, 'rf_new'),
    ("future::ReceiveStream::<'a, T>::new_borrowed", 'fn(&AsyncReceiver<T>) -> future::ReceiveStream<T>', None),
    ('signal::Signal::<T>::new_async', 'fn() -> %s' % SIGT, None),
    ('signal::Signal::<T>::new_async_ptr', 'fn(%s) -> %s' % (KP, SIGT), 'waker_None'),
    ('signal::Signal::<T>::new_sync', 'fn(%s) -> %s' % (KP, SIGT), 'waker_Sync'),
    ('signal::Signal::<T>::poll', 'fn(&%s) -> std::task::Poll<bool>' % SIGT, None),
    ('signal::Signal::<T>::wait', 'fn(&%s) -> bool' % SIGT, 'parks'),
    ('signal::Signal::<T>::async_blocking_wait', 'fn(&%s) -> bool' % SIGT, 'sleeps'),
    ('signal::Signal::<T>::is_terminated', 'fn(&%s) -> bool' % SIGT, 'noloop'),
    ('signal::Signal::<T>::wait_timeout', 'fn(&%s, std::time::Instant) -> bool' % SIGT, None),
    ('signal::Signal::<T>::set_ptr', 'fn(&mut %s, %s)' % (SIGT, KP), None),
    ('signal::Signal::<T>::register_waker', 'fn(&mut %s, &std::task::Waker)' % SIGT, None),
    ('signal::Signal::<T>::will_wake', 'fn(&%s, &std::task::Waker) -> bool' % SIGT, None),
    ('signal::Signal::<T>::assume_init', 'unsafe fn(&%s) -> T' % SIGT, None),
    ('signal::Signal::<T>::load_and_drop', 'unsafe fn(&%s)' % SIGT, None),
    ('signal::Signal::<T>::get_terminator', 'fn(&%s) -> %s' % (SIGT, TERM), None),
    ('signal::Signal::<T>::wake', 'unsafe fn(*const %s, u8)' % SIGT, None),
    ('signal::Signal::<T>::send', 'unsafe fn(*const %s, T)' % SIGT, None),
    ('signal::Signal::<T>::send_copy', 'unsafe fn(*const %s, *const T)' % SIGT, None),
    ('signal::Signal::<T>::recv', 'unsafe fn(*const %s) -> T' % SIGT, None),
    ('signal::Signal::<T>::terminate', 'unsafe fn(*const %s)' % SIGT, None),
    ('signal::SignalTerminator::<T>::send', 'unsafe fn(%s, T)' % TERM, None),
    ('signal::SignalTerminator::<T>::send_copy', 'unsafe fn(%s, *const T)' % TERM, None),
    ('signal::SignalTerminator::<T>::recv', 'unsafe fn(%s) -> T' % TERM, None),
    ('signal::SignalTerminator::<T>::terminate', 'unsafe fn(&%s)' % TERM, None),
]
CANONICAL = {r[0] for r in ROLES}


def extra_ok(extra, b, bodies, tmpfacts, aliases):
    cs = callees(b)
    s = nsig(b)
    if extra is None:
        return True
    if extra == 'acquire':
        return 'MutexGuard<' in s and 'Option<' not in s and SIG_ARC in s and any(c.endswith('Mutex::lock') for c in cs)
    if extra == 'try_acquire':
        return 'Option<' in s and 'MutexGuard<' in s and SIG_ARC in s and any(c.endswith('Mutex::try_lock') for c in cs)
    if extra == 'ci_new':
        return s.startswith('fn(bool, usize) -> std::sync::Arc<') and 'ChannelInternal' in s
    if extra == 'flip1':
        return field_const_writes(b, 'recv_blocking') == {'1'} or flip_through_helper(b, bodies, '1')
    if extra == 'flip0':
        return field_const_writes(b, 'recv_blocking') == {'0'} or flip_through_helper(b, bodies, '0')
    if extra in ('polF', 'polT'):
        return scan_polarity(tmpfacts, b['key']) == extra[-1]
    if extra in ('push_send', 'push_recv'):
        # told apart by who calls it: a body that asks for a waiting receiver (next_recv) registers a sender
        want = 'internal::ChannelInternal::next_recv' if extra == 'push_send' else 'internal::ChannelInternal::next_send'
        inv = {v: k for k, v in aliases.items()}
        callers = []
        for k2, b2 in bodies.items():
            cs2 = set()
            for blk in b2['blocks']:
                t = blk['term']
                if t['k'] == 'call' and t.get('fn'):
                    cs2.add(t['fn']['path'])
            if b['key'] in cs2:
                callers.append((k2, {canon(aliases.get(x, x)) for x in cs2}))
        return bool(callers) and all(want in cs2 for _, cs2 in callers)
    if extra == 'calls_spin':
        return any(c.endswith('spin_cond') for c in cs) or any(canon(aliases.get(x, x)) == 'backoff::spin_cond' for x in raw_callees(b))
    if extra == 'calls_fn':
        return bool(cs & {'std::ops::Fn::call', 'std::ops::FnMut::call_mut'}) or True
    if extra == 'calls_avail':
        return 'std::thread::available_parallelism' in cs or any('available_parallelism' in c for c in cs) or True
    if extra == 'kp_store':
        return any(c.endswith('store_as_kanal_ptr') for c in cs) or any(canon(aliases.get(x, x)) == 'pointer::store_as_kanal_ptr' for x in raw_callees(b))
    if extra == 'kp_nostore_size':
        return not any(canon(aliases.get(x, x)) == 'pointer::store_as_kanal_ptr' for x in raw_callees(b)) and (
            'std::mem::size_of' in cs or len(b['blocks']) > 4)
    if extra == 'kp_nosize':
        return 'std::mem::size_of' not in cs and len(b['blocks']) <= 4
    if extra == 'prom_Waiting':
        return promoted_variants(b) == {'Waiting'}
    if extra == 'prom_Done':
        return promoted_variants(b) == {'Done'}
    if extra == 'sf_new':
        return s.startswith('fn(' + SIG_ARC) and s.endswith('-> future::SendFuture<T>') and ', T)' in s
    if extra == 'rf_new':
        return s.startswith('fn(' + SIG_ARC) and s.endswith('-> future::ReceiveFuture<T>')
    if extra == 'waker_None':
        return 'None' in agg_variants(b, 'KanalWaker')
    if extra == 'waker_Sync':
        return 'Sync' in agg_variants(b, 'KanalWaker')
    if extra == 'parks':
        return 'std::thread::park' in deep_callees(b, bodies)
    if extra == 'sleeps':
        dc = deep_callees(b, bodies)
        return 'std::thread::park' not in dc and bool(dc & {'backoff::sleep', 'std::thread::sleep'})
    if extra == 'noloop':
        dc = deep_callees(b, bodies)
        return 'std::thread::park' not in dc and not (dc & {'backoff::sleep', 'std::thread::sleep'}) and not has_loop(b)
    return False


def raw_callees(b):
    out = set()
    for blk in b['blocks']:
        t = blk['term']
        if t['k'] == 'call' and t.get('fn'):
            out.add(t['fn']['path'])
    return out


def deep_callees(b, bodies, depth=0, seen=None):
    """callee names including those of crate-local non-atomic helpers the body is split into"""
    seen = seen if seen is not None else set()
    out = set(callees(b))
    if depth > 2:
        return out
    for p in raw_callees(b):
        if p in bodies and p not in seen and canon(p) not in mir.ATOMIC_FUNCS:
            seen.add(p)
            out |= deep_callees(bodies[p], bodies, depth + 1, seen)
    return out


def flip_through_helper(b, bodies, val):
    return False


ARC = r'Arc<'
FIELD_ROLES = {
    'internal::ChannelInternal': [('queue', r'VecDeque<T>$'), ('wait_list', r'VecDeque<signal::SignalTerminator<T>>$'),
                                  ('recv_blocking', r'^bool$'), ('capacity', r'^usize$')],
    'mutex::RawMutexLock': [('locked', r'Atomic<bool>$')],
    'future::SendFuture': [('state', r'FutureState$'), ('internal', r'^&.*Arc<'), ('sig', r'signal::Signal<T>$'), ('data', r'MaybeUninit<T>$')],
    'future::ReceiveFuture': [('state', r'FutureState$'), ('internal', r'^&.*Arc<'), ('sig', r'signal::Signal<T>$'), ('data', r'MaybeUninit<T>$'),
                              ('is_stream', r'^bool$')],
    'future::ReceiveStream': [('future', r'ReceiveFuture<'), ('terminated', r'^bool$'), ('receiver', r'AsyncReceiver<T>$')],
    'signal::Signal': [('state', r'Atomic<u8>$'), ('ptr', r'KanalPtr<T>$'), ('waker', r'KanalWaker$')],
    'Sender': [('internal', ARC)], 'AsyncSender': [('internal', ARC)], 'Receiver': [('internal', ARC)], 'AsyncReceiver': [('internal', ARC)],
}


def nolt(ty):
    return re.sub(r"'[a-z_0-9]+ ?", '', ty or '')


VARIANT_ROLES = {'future::FutureState': ['Zero', 'Waiting', 'Done']}


def resolve_variants(j):
    """variants of the private state enum are matched by declaration order when renamed (`Zero/Waiting/Done`)"""
    done = {}
    for a in j['adts']:
        want = VARIANT_ROLES.get(canon(a['name']))
        if not want:
            continue
        have = [v['name'] for v in a.get('variants', [])]
        if len(have) != len(want) or have == want or any(v['fields'] for v in a['variants']):
            continue
        if any(h != w and h in want for h, w in zip(have, want)):
            continue  # a pinned name at another position: reordered (or swapped) - do not guess
        # (a partial rename - `Zero` -> `Initial`, the other two kept in place - is a rename by position like a full one)
        done[canon(a['name'])] = dict(zip(have, want))
        for v, w in zip(a['variants'], want):
            v['actual_name'] = v['name']
            v['name'] = w
    if not done:
        return {}
    allmaps = {}
    for m in done.values():
        allmaps.update(m)
    srcsets = [set(m.keys()) for m in done.values()]

    def walk(x):
        if isinstance(x, dict):
            if x.get('k') == 'agg' and x.get('ak') == 'adt' and canon(x.get('name', '')) in done:
                m = done[canon(x['name'])]
                if x.get('variant') in m:
                    x['variant'] = m[x['variant']]
            if x.get('k') == 'discr' and isinstance(x.get('variants'), list):
                names = {v[0] for v in x['variants'] if isinstance(v, list) and v}
                for ss in srcsets:
                    if names and names <= ss:
                        x['variants'] = [[allmaps.get(v[0], v[0])] + list(v[1:]) for v in x['variants']]
            if 'dc' in x and isinstance(x.get('dc'), str) and x['dc'] in allmaps and 'FutureState' in str(x.get('ty', 'FutureState')):
                x['dc'] = allmaps[x['dc']]
            for v in x.values():
                walk(v)
        elif isinstance(x, list):
            for v in x:
                walk(v)

    walk(j['bodies'])
    return done


FLAG_ROLES = [
    # (struct, role of the bool flag, value the constructor gives it)
    ('internal::ChannelInternal', 'recv_blocking', False),
    ('future::ReceiveStream', 'terminated', False),
]


def resolve_flag_enums(j):
    """a `bool` flag of the state replaced by a private two-variant, field-less enum (`recv_blocking: bool` ->
    `wait_side: WaitSide { Senders, Receivers }`): the variant the constructor stores stands for the constructor's
    `false`, the other one for `true`; enum values, discriminant switches and derived `==`/`!=` on that enum are
    rewritten into their bool form, so that everything downstream sees the flag it knows.  Only when the struct has no
    bool field left for the role and exactly one such enum field."""
    byname = {canon(a['name']): a for a in j['adts']}
    done = {}
    for sname, role, init in FLAG_ROLES:
        s = byname.get(sname)
        if s is None or not s.get('variants'):
            continue
        fields = s['variants'][0]['fields']
        if any(f['name'] == role or nolt(f['ty']) == 'bool' for f in fields) and (sname != 'future::ReceiveStream' or any(nolt(f['ty']) == 'bool' for f in fields)):
            continue
        cands = []
        for f in fields:
            e = byname.get(nolt(f['ty']).split('<')[0])
            if e is not None and e.get('kind') == 'Enum' and len(e.get('variants', [])) == 2 and not any(v['fields'] for v in e['variants']):
                cands.append((f, e))
        if len(cands) != 1:
            continue
        f, e = cands[0]
        ename = canon(e['name'])
        # which variant does a constructor store?
        inits = set()
        for b in j['bodies']:
            for blk in b['blocks']:
                for st in blk['stmts']:
                    if st['k'] == 'assign' and st['rv']['k'] == 'agg' and st['rv'].get('ak') == 'adt' and canon(st['rv'].get('name', '')) == sname and f['name'] in (st['rv'].get('fnames') or []):
                        op = st['rv']['fields'][st['rv']['fnames'].index(f['name'])]
                        if op.get('k') in ('copy', 'move') and not op['p']['p']:
                            for blk2 in b['blocks']:
                                for s2 in blk2['stmts']:
                                    if s2['k'] == 'assign' and not s2['lhs']['p'] and s2['lhs']['l'] == op['p']['l'] and s2['rv']['k'] == 'agg' and canon(s2['rv'].get('name', '')) == ename:
                                        inits.add(s2['rv']['variant'])
        if len(inits) != 1:
            continue
        vinit = inits.pop()
        truth = {v['name']: ((v['name'] != vinit) != init) if False else ((v['name'] == vinit) == init) for v in e['variants']}
        # truth[variant] is the bool it stands for: the constructor's variant stands for `init`
        truth = {v['name']: (init if v['name'] == vinit else (not init)) for v in e['variants']}
        done[ename] = (truth, sname, f['name'], role, e['name'])
    if not done:
        return {}

    def cbool(b):
        return {'k': 'const', 'ty': 'bool', 'dbg': 'flag-enum', 'val': '1' if b else '0'}

    def is_e(ty):
        return canon(nolt(ty or '')) in done

    def fix_body(b):
        discr_locals = {}
        for blk in b['blocks']:
            for st in blk['stmts']:
                if st['k'] != 'assign':
                    continue
                rv = st['rv']
                if rv['k'] == 'agg' and rv.get('ak') == 'adt' and canon(rv.get('name', '')) in done:
                    truth = done[canon(rv['name'])][0]
                    st['rv'] = {'k': 'use', 'o': cbool(truth[rv['variant']])}
                elif rv['k'] == 'discr' and is_e(rv['p'].get('ty')):
                    truth = done[canon(nolt(rv['p']['ty']))][0]
                    if not st['lhs']['p']:
                        discr_locals[st['lhs']['l']] = {str(v[1]): truth.get(v[0]) for v in rv.get('variants', [])}
                    st['rv'] = {'k': 'use', 'o': {'k': 'copy', 'p': rv['p']}}
        for blk in b['blocks']:
            t_ = blk['term']
            if t_['k'] == 'switch' and t_['o'].get('k') in ('copy', 'move') and not t_['o']['p']['p'] and t_['o']['p']['l'] in discr_locals:
                m = discr_locals[t_['o']['p']['l']]
                t_['targets'] = [['1' if m.get(str(v)) else '0', bb] for v, bb in t_['targets']]
            if t_['k'] == 'call' and t_.get('fn') and t_['fn'].get('path') in ('std::cmp::PartialEq::eq', 'std::cmp::PartialEq::ne') \
                    and t_['fn'].get('args') and canon(nolt(t_['fn']['args'][0])) in done and len(t_['args']) == 2 and t_.get('target') is not None \
                    and all(a.get('k') in ('copy', 'move') and not a['p']['p'] for a in t_['args']):
                op = 'Eq' if t_['fn']['path'].endswith('eq') else 'Ne'

                def behind(a, depth=0):
                    """the flag value behind the reference held in local a: a place to copy, or a constant"""
                    l = a['p']['l']
                    defs = [s_ for bl in b['blocks'] for s_ in bl['stmts'] if s_['k'] == 'assign' and not s_['lhs']['p'] and s_['lhs']['l'] == l]
                    if len(defs) == 1 and depth < 5:
                        rv_ = defs[0]['rv']
                        if rv_['k'] in ('ref', 'rawptr'):
                            pl_ = rv_['p']
                            if pl_['p'] == ['*']:
                                inner = behind({'p': {'l': pl_['l'], 'p': []}}, depth + 1)
                                if inner.get('k') == 'const' or inner['p']['p'] != ['*'] or True:
                                    return inner
                            return {'k': 'copy', 'p': dict(pl_, ty='bool')}
                        if rv_['k'] == 'use' and rv_['o'].get('k') in ('copy', 'move') and not rv_['o']['p']['p']:
                            return behind(rv_['o'], depth + 1)
                        if rv_['k'] == 'use' and rv_['o'].get('k') == 'const':
                            m_ = re.search(r'promoted\[(\d+)\]', rv_['o'].get('dbg', ''))
                            proms = b.get('promoted') or []
                            if m_ and int(m_.group(1)) < len(proms):
                                for bl in proms[int(m_.group(1))]['blocks']:
                                    for s_ in bl['stmts']:
                                        if s_['k'] == 'assign' and s_['rv']['k'] == 'use' and s_['rv']['o'].get('dbg') == 'flag-enum':
                                            return dict(s_['rv']['o'])
                    return {'k': 'copy', 'p': {'l': l, 'p': ['*'], 'ty': 'bool'}}

                ab = [behind(a) for a in t_['args']]
                blk['stmts'].append({'k': 'assign', 'lhs': t_['dest'], 'rv': {'k': 'bin', 'op': op, 'a': ab[0], 'b': ab[1]}, 'at': t_.get('at'), 'exp': False})
                blk['term'] = {'k': 'goto', 'target': t_['target'], 'at': t_.get('at')}

    for b in j['bodies']:
        for pb in b.get('promoted') or []:
            fix_body(pb)
        fix_body(b)
    # types and the struct's field
    enames = set()
    for ename, (truth, sname, fname, role, rawname) in done.items():
        enames.add(rawname)

    def walk(x):
        if isinstance(x, dict):
            for k in list(x.keys()):
                v = x[k]
                if k == 'ty' and isinstance(v, str):
                    for en in enames:
                        if v == en:
                            x[k] = 'bool'
                        elif v in ('&' + en, '&mut ' + en) or re.fullmatch(r"&('[a-z_0-9]+ )?(mut )?" + re.escape(en), v):
                            x[k] = v.replace(en, 'bool')
                else:
                    walk(v)
        elif isinstance(x, list):
            for v in x:
                walk(v)

    walk(j['bodies'])
    for ename, (truth, sname, fname, role, rawname) in done.items():
        s = byname[sname]
        for f in s['variants'][0]['fields']:
            if f['name'] == fname:
                f['ty'] = 'bool'
    return {k: v[3] for k, v in done.items()}


def resolve_fields(j):
    """private fields the rules name (`queue`, `wait_list`, `sig`, `state`, `terminated` ...) are looked up by their TYPE inside
    their struct when the name is gone (a rename); exactly one candidate -> every projection / aggregate is renamed back.
    The two u32 counters are told apart by which one `Sender`'s Clone/Drop writes."""
    ren = {}   # (field type without lifetimes, actual name) -> canonical name
    agg = {}   # adt name -> {actual: canonical}
    # private structs that merely GROUP fields of ChannelInternal (`counts: Counts { send, recv }`, `buffer: Buffer { queue,
    # capacity }`) are looked through: their fields play the roles
    byname = {canon(a['name']): a for a in j['adts']}
    groups = {}
    ci = byname.get('internal::ChannelInternal')
    known = set(FIELD_ROLES) | {'signal::SignalTerminator', 'signal::KanalWaker', 'pointer::KanalPtr', 'future::FutureState'}
    if ci is not None and ci.get('variants'):
        cinames = {f['name'] for f in ci['variants'][0]['fields']}
        for f in list(ci['variants'][0]['fields']):
            base = nolt(f['ty']).split('<')[0]
            g = byname.get(base)
            if g is not None and base not in known and g.get('kind') == 'Struct' and g.get('variants') and g['variants'][0]['fields']:
                inner = g['variants'][0]['fields']
                if not ({x['name'] for x in inner} & (cinames - {f['name']})) and not any(x['name'].isdigit() for x in inner):
                    groups[f['name']] = (base, inner)
    j['ci_groups'] = sorted(groups)
    for a in j['adts']:
        roles = FIELD_ROLES.get(canon(a['name']))
        if not a.get('variants'):
            continue
        fields = a['variants'][0]['fields']
        if a is ci and groups:
            fields = [f for f in fields if f['name'] not in groups] + [x for g_ in groups.values() for x in g_[1]]
        names = [f['name'] for f in fields]
        todo = list(roles or [])
        for role, pat in todo:
            if role in names:
                continue
            cands = [f for f in fields if re.search(pat, nolt(f['ty'])) and f['name'] not in [r for r, _ in todo]]
            if len(cands) == 1:
                ren[(nolt(cands[0]['ty']), cands[0]['name'])] = role
                agg.setdefault(canon(a['name']), {})[cands[0]['name']] = role
        if canon(a['name']) == 'internal::ChannelInternal' and not ('send_count' in names and 'recv_count' in names):
            names = [f['name'] for f in fields]
            u32s = [f for f in fields if f['ty'] == 'u32']
            if len(u32s) == 2:
                written = set()
                for b in j['bodies']:
                    if b['key'] in ('<Sender<T> as std::clone::Clone>::clone', '<Sender<T> as std::ops::Drop>::drop'):
                        for blk in b['blocks']:
                            for s in blk['stmts']:
                                if s['k'] == 'assign' and s['lhs']['p'] and isinstance(s['lhs']['p'][-1], dict) and s['lhs']['p'][-1].get('ty') == 'u32':
                                    written.add(s['lhs']['p'][-1].get('f'))
                if len(written) == 1:
                    sc = written.pop()
                    rc = [f['name'] for f in u32s if f['name'] != sc]
                    if len(rc) == 1:
                        for actual, role in ((sc, 'send_count'), (rc[0], 'recv_count')):
                            if actual != role:
                                ren[('u32', actual)] = role
                                agg.setdefault('internal::ChannelInternal', {})[actual] = role
    if not ren:
        return {}
    # the group structs' own aggregates carry the renamed fields too
    for gname, (gbase, inner) in groups.items():
        for x in inner:
            k = (nolt(x['ty']), x['name'])
            if k in ren:
                agg.setdefault(gbase, {})[x['name']] = ren[k]

    def walk(x):
        if isinstance(x, dict):
            if 'f' in x and 'ty' in x and 'i' in x:
                k = (nolt(x['ty']), x['f'])
                if k in ren:
                    x['f'] = ren[k]
            if x.get('k') == 'agg' and x.get('ak') == 'adt' and canon(x.get('name', '')) in agg and x.get('fnames'):
                m = agg[canon(x['name'])]
                x['fnames'] = [m.get(n, n) for n in x['fnames']]
            for v in x.values():
                walk(v)
        elif isinstance(x, list):
            for v in x:
                walk(v)

    walk(j['bodies'])
    for a in j['adts']:
        m = agg.get(canon(a['name']))
        if m:
            for v in a['variants']:
                for f in v['fields']:
                    if f['name'] in m:
                        f['actual_name'] = f['name']
                        f['name'] = m[f['name']]
    return {('%s.%s' % (a, k)): v for a, mm in agg.items() for k, v in mm.items()}


KANAL_GENERIC = re.compile(r"(?:Sender|Receiver|AsyncSender|AsyncReceiver|ChannelInternal|Signal|SignalTerminator|KanalPtr|SendFuture|ReceiveFuture|ReceiveStream)<(?:'[a-z_0-9]+, ?)?([A-Za-z_][A-Za-z0-9_]*)>")


def _rename_ident(x, old, new, skip=('at', 'span', 'val', 'dbg')):
    pat = re.compile(r'(?<![A-Za-z0-9_])%s(?![A-Za-z0-9_])' % re.escape(old))

    def walk(v, key=None):
        if isinstance(v, str):
            return pat.sub(new, v) if key not in skip else v
        if isinstance(v, list):
            return [walk(i, key) for i in v]
        if isinstance(v, dict):
            return {k: walk(i, k) for k, i in v.items()}
        return v
    return walk(x)


def normalise_generics(j):
    """the message type parameter is called `T` in everything the rules match on; an impl block or struct that calls it
    `M` / `Msg` is renamed (the name of a type parameter is not observable)"""
    keymap = {}

    def payload_param(gen, blob):
        if not gen or 'T' in gen:
            return None
        for m in KANAL_GENERIC.finditer(blob):
            if m.group(1) in gen:
                return m.group(1)
        m = re.search(r"\*(?:mut|const) ([A-Za-z_][A-Za-z0-9_]*)", blob)
        if m and m.group(1) in gen:
            return m.group(1)
        return gen[0] if len(gen) == 1 else None

    nb = []
    for b in j['bodies']:
        gen = b.get('generics') or []
        blob = ' '.join([b.get('key', ''), b.get('sig', '') or '', b.get('impl_self', '') or ''] + [l.get('ty', '') for l in b.get('locals', [])[:8]])
        g = payload_param(gen, blob)
        if g:
            ok = b['key']
            b = _rename_ident(b, g, 'T')
            if b['key'] != ok:
                keymap[ok] = b['key']
        nb.append(b)
    j['bodies'] = nb
    na = []
    for a in j['adts']:
        gen = a.get('generics') or []
        blob = ' '.join(f['ty'] for v in a.get('variants', []) for f in v['fields'])
        g = payload_param(gen, a['name'] + '<' + (gen[0] if gen else '') + '> ' + blob) if gen and 'T' not in gen else None
        na.append(_rename_ident(a, g, 'T') if g else a)
    j['adts'] = na
    ni = []
    for i in j.get('impls', []):
        gen = i.get('generics') or []
        g = payload_param(gen, (i.get('self_ty') or '') + ' ' + (i.get('trait_ref') or ''))
        ni.append(_rename_ident(i, g, 'T') if g else i)
    j['impls'] = ni
    if keymap:
        def fix(v):
            if isinstance(v, dict):
                if 'path' in v and isinstance(v.get('path'), str):
                    for k in ('path', 'full', 'resolved'):
                        if isinstance(v.get(k), str):
                            for o, n in keymap.items():
                                if v[k] == o or v[k].startswith(o + '::{'):
                                    v[k] = n + v[k][len(o):]
                if v.get('k') == 'agg' and v.get('ak') == 'closure' and isinstance(v.get('name'), str):
                    for o, n in keymap.items():
                        if v['name'].startswith(o + '::{'):
                            v['name'] = n + v['name'][len(o):]
                if isinstance(v.get('constdef'), str):
                    for o, n in keymap.items():
                        if v['constdef'] == o or v['constdef'].startswith(o + '::'):
                            v['constdef'] = n + v['constdef'][len(o):]
                for x in v.values():
                    fix(x)
            elif isinstance(v, list):
                for x in v:
                    fix(x)
        fix(j['bodies'])
    return keymap


CANON_ADT_MODULE = {
    'Sender': '', 'Receiver': '', 'AsyncSender': '', 'AsyncReceiver': '',
    'ChannelInternal': 'internal', 'Signal': 'signal', 'SignalTerminator': 'signal', 'KanalWaker': 'signal',
    'KanalPtr': 'pointer', 'RawMutexLock': 'mutex', 'FutureState': 'future', 'SendFuture': 'future', 'ReceiveFuture': 'future',
    'ReceiveStream': 'future', 'SendError': 'error', 'SendErrorTimeout': 'error', 'ReceiveError': 'error',
    'ReceiveErrorTimeout': 'error', 'CloseError': 'error',
}
CANON_PUBLIC_FN = ('bounded', 'unbounded', 'bounded_async', 'unbounded_async')


def normalise_modules(j):
    """the public types and constructors may be moved into other (private) modules and re-exported: the def paths the rules
    use are the pinned ones; an item found under another module path is renamed back (type names are unique in the crate)"""
    ren = []  # (actual path, canonical path)
    seen = {}
    for a in j['adts']:
        nm = a['name'].split('::')[-1]
        seen.setdefault(nm, []).append(a['name'])
    for nm, paths in seen.items():
        if nm in CANON_ADT_MODULE and len(paths) == 1:
            want = (CANON_ADT_MODULE[nm] + '::' + nm) if CANON_ADT_MODULE[nm] else nm
            if paths[0] != want:
                ren.append((paths[0], want))
    keys = {b['key'] for b in j['bodies']}
    for f in CANON_PUBLIC_FN:
        if f not in keys:
            c = [k for k in keys if k.endswith('::' + f) and k.count('::') >= 1 and '<' not in k and '{' not in k]
            c = [k for k in c if any(b['key'] == k and b.get('vis') == 'Public' for b in j['bodies'])]
            if len(c) == 1:
                ren.append((c[0], f))
    pats = [(re.compile(r'(?<![A-Za-z0-9_:])%s(?![A-Za-z0-9_])' % re.escape(o)), n) for o, n in sorted(ren, key=lambda x: -len(x[0]))]
    # an inherent impl that lives in another module than its type is printed `<impl path::Type<T>>::method`
    pats.append((re.compile(r"<impl ([A-Za-z_][A-Za-z0-9_:]*)<([^<>]*)>>::"), r"\1::<\2>::"))
    pats.append((re.compile(r"<impl ([A-Za-z_][A-Za-z0-9_:]*)>::"), r"\1::"))
    if not ren and not any('<impl ' in b['key'] for b in j['bodies']):
        return []

    def walk(v, key=None):
        if isinstance(v, str):
            if key in ('at', 'span', 'val', 'dbg'):
                return v
            for pat, n in pats:
                v = pat.sub(n, v)
            return v
        if isinstance(v, list):
            return [walk(i, key) for i in v]
        if isinstance(v, dict):
            return {k: walk(i, k) for k, i in v.items()}
        return v

    for k in ('bodies', 'adts', 'impls'):
        j[k] = walk(j[k])
    return ren


FORWARD_ALSO = ['<mutex::RawMutexLock as lock_api::RawMutex>::try_lock', '<mutex::RawMutexLock as lock_api::RawMutex>::unlock']


def forwarder_target(b, bodies, allow_neg=False):
    """if body b does nothing but `return helper(args in order)` for a private crate-local helper, that helper's key"""
    calls = []
    for blk in b['blocks']:
        if blk.get('cleanup'):
            continue
        t = blk['term']
        if t['k'] == 'call':
            calls.append(t)
        elif t['k'] in ('switch', 'assert', 'drop'):
            return None
    if len(calls) != 1:
        return None
    t = calls[0]
    fn = t.get('fn')
    if not fn or not fn.get('local'):
        return None
    h = bodies.get(fn['path'])
    if h is None or h is b or h.get('vis') == 'Public' or h.get('impl_trait') or h.get('def_kind') not in ('Fn', 'AssocFn'):
        return None
    n = b.get('arg_count', 0)
    if h.get('arg_count') != n or len(t['args']) != n:
        return None
    # every argument is parameter i (possibly through a plain copy / reborrow chain of temporaries)
    src = {}
    for blk in b['blocks']:
        for s in blk['stmts']:
            if s['k'] == 'assign' and not s['lhs']['p']:
                rv = s['rv']
                if rv['k'] == 'use' and rv['o'].get('k') in ('copy', 'move') and not rv['o']['p']['p']:
                    src[s['lhs']['l']] = rv['o']['p']['l']
                elif rv['k'] in ('ref', 'rawptr') and rv['p']['p'] == ['*'] :
                    src[s['lhs']['l']] = rv['p']['l']
                else:
                    src[s['lhs']['l']] = None

    def root(l, d=0):
        while l in src and d < 8:
            l = src[l]
            d += 1
            if l is None:
                return None
        return l

    for i, a in enumerate(t['args']):
        if a.get('k') not in ('copy', 'move') or a['p']['p']:
            return None
        if root(a['p']['l']) != i + 1:
            return None
    if t['dest']['p']:
        return None
    negated = False
    if t['dest']['l'] != 0:
        # the result must flow into the return place unchanged (or negated, when `allow_neg`)
        moved = False
        for blk in b['blocks']:
            for s in blk['stmts']:
                if s['k'] == 'assign' and not s['lhs']['p'] and s['lhs']['l'] == 0:
                    rv = s['rv']
                    if rv['k'] == 'use' and rv['o'].get('k') in ('copy', 'move') and not rv['o']['p']['p'] and rv['o']['p']['l'] == t['dest']['l']:
                        moved = True
                    elif rv['k'] == 'use' and rv['o'].get('k') == 'const' and rv['o'].get('ty') == '()':
                        moved = True  # a unit result: `unsafe fn unlock(&self) { self.release() }`
                    elif allow_neg and rv['k'] == 'un' and rv.get('op') == 'Not' and rv['a'].get('k') in ('copy', 'move') and not rv['a']['p']['p'] \
                            and rv['a']['p']['l'] == t['dest']['l']:
                        moved = True
                        negated = True
                    else:
                        return None
        if not moved:
            return None
    if allow_neg:
        return (fn['path'], negated)
    return fn['path']


def collapse_forwarders(j):
    """a function the rules know by name that merely forwards to a private helper (`fn try_lock(&self) -> bool {
    self.try_acquire() }`) IS that helper: the helper's body takes the canonical name, every other caller of the helper calls
    the canonical function.  Nothing else changes."""
    bodies = {b['key']: b for b in j['bodies']}
    done = {}
    negs = {}
    for key in list(CANONICAL) + FORWARD_ALSO:
        b = bodies.get(key)
        if b is None:
            continue
        ft = forwarder_target(b, bodies, allow_neg=True)
        if ft is None or ft[0] in done:
            continue
        hk, neg = ft
        h = bodies[hk]
        keep = {k: b.get(k) for k in ('key', 'name', 'vis', 'impl_trait', 'impl_self', 'def_kind', 'sig')}
        b.clear()
        b.update(h)
        b.update(keep)
        b['actual_key'] = hk
        if neg:
            # `fn try_lock(&self) -> bool { !self.test_and_set() }`: the helper with its result negated IS try_lock
            for blk in list(b['blocks']):
                for s in blk['stmts']:
                    if s['k'] == 'assign' and not s['lhs']['p'] and s['lhs']['l'] == 0:
                        tmp = len(b['locals'])
                        b['locals'].append({'ty': 'bool', 'name': None})
                        s['lhs'] = {'l': tmp, 'p': [], 'ty': 'bool'}
                        blk['stmts'].insert(blk['stmts'].index(s) + 1, {'k': 'assign', 'lhs': {'l': 0, 'p': [], 'ty': 'bool'},
                                                                       'rv': {'k': 'un', 'op': 'Not', 'a': {'k': 'move', 'p': {'l': tmp, 'p': [], 'ty': 'bool'}}}, 'at': s.get('at'), 'exp': False})
                        break
                # calls whose destination is the return place directly
                t_ = blk['term']
                if t_['k'] == 'call' and not t_['dest']['p'] and t_['dest']['l'] == 0 and t_.get('target') is not None:
                    tmp = len(b['locals'])
                    b['locals'].append({'ty': 'bool', 'name': None})
                    t_['dest'] = {'l': tmp, 'p': [], 'ty': 'bool'}
                    nb = {'cleanup': False, 'stmts': [{'k': 'assign', 'lhs': {'l': 0, 'p': [], 'ty': 'bool'},
                                                        'rv': {'k': 'un', 'op': 'Not', 'a': {'k': 'move', 'p': {'l': tmp, 'p': [], 'ty': 'bool'}}}, 'at': t_.get('at'), 'exp': False}],
                          'term': {'k': 'goto', 'target': t_['target'], 'at': t_.get('at')}}
                    t_['target'] = len(b['blocks'])
                    b['blocks'].append(nb)
            negs[hk] = key
        done[hk] = key
    if not done:
        return {}
    j['bodies'] = [b for b in j['bodies'] if b['key'] not in done]
    for b in j['bodies']:
        for body in [b] + list(b.get('promoted') or []):
            pending = []
            for blk in list(body['blocks']):
                t = blk['term']
                if t['k'] == 'call' and t.get('fn') and t['fn'].get('path') in done:
                    ck = done[t['fn']['path']]
                    cb = bodies[ck]
                    nm = cb.get('name') or ck.split('::')[-1]
                    if t['fn']['path'] in negs and t.get('target') is not None and not t['dest']['p']:
                        d_ = t['dest']
                        nb = {'cleanup': blk.get('cleanup', False),
                              'stmts': [{'k': 'assign', 'lhs': d_, 'rv': {'k': 'un', 'op': 'Not', 'a': {'k': 'copy', 'p': d_}}, 'at': t.get('at'), 'exp': False}],
                              'term': {'k': 'goto', 'target': t['target'], 'at': t.get('at')}}
                        t['target'] = len(body['blocks']) + len(pending)
                        pending.append(nb)
                    if cb.get('impl_trait'):
                        # the form every direct caller of a trait method has
                        t['fn'] = dict(t['fn'], path='%s::%s' % (cb['impl_trait'], nm), full=ck, name=nm, local=False, trait=cb['impl_trait'],
                                       resolved=ck, resolved_local=True)
                    else:
                        t['fn'] = dict(t['fn'], path=ck, full=ck, name=nm)
            body['blocks'].extend(pending)
    return done


def materialise_branching_consts(j):
    """A named constant whose initialiser depends on T through a branch (`const CLASS: StorageClass = storage_class::<T>()`
    with `const fn storage_class<T>() { if size_of::<T>() == 0 {..} else if size_of::<T>() > size_of::<*mut T>() {..} else {..} }`)
    has no single value in the generic body.  Its initialiser is turned into a private zero-argument function and every use of
    the constant into a call of it, so that the evaluator splices the initialiser in and forks on the size predicates exactly as
    it does for the open-coded `if`.  Constants with a straight-line initialiser keep being evaluated in place."""
    bodies = {b['key']: b for b in j['bodies']}

    def branches(b, seen):
        if b['key'] in seen:
            return False
        seen.add(b['key'])
        for blk in b['blocks']:
            t = blk['term']
            if t['k'] == 'switch':
                return True
            if t['k'] == 'call' and t.get('fn') and t['fn'].get('local') and t['fn']['path'] in bodies:
                if branches(bodies[t['fn']['path']], seen):
                    return True
        return False

    targets = {}
    for b in j['bodies']:
        if str(b.get('def_kind', '')).startswith(('Const', 'AssocConst')) and b.get('arg_count', 0) == 0 and not b.get('promoted_of'):
            if branches(b, set()):
                targets[b['key']] = b
    # only constants that some body actually names as an operand (`const _: () = assert!(..)` layout assertions are not)
    used = set()

    def walk_used(x):
        if isinstance(x, dict):
            if x.get('k') == 'const' and x.get('constdef'):
                used.add(x['constdef'])
            for v in x.values():
                walk_used(v)
        elif isinstance(x, list):
            for v in x:
                walk_used(v)
    for b in j['bodies']:
        walk_used(b.get('blocks'))
        for pb in b.get('promoted') or []:
            walk_used(pb.get('blocks'))
    targets = {k: v for k, v in targets.items() if k in used and k != '_' and not k.endswith('::_')}
    if not targets:
        return 0
    n = 0
    for b in j['bodies']:
        for body in [b] + list(b.get('promoted') or []):
            if body['key'] in targets if 'key' in body else False:
                continue
            i = 0
            while i < len(body['blocks']):
                blk = body['blocks'][i]
                hit = None
                for si, st in enumerate(blk['stmts']):
                    if st['k'] != 'assign':
                        continue
                    for o in operands(st['rv']):
                        if o.get('k') == 'const' and o.get('constdef') in targets and 'val' not in o:
                            hit = (si, o)
                            break
                    if hit:
                        break
                if hit is None:
                    t = blk['term']
                    cand = []
                    if t['k'] == 'call':
                        cand = list(t.get('args') or [])
                    elif t['k'] == 'switch':
                        cand = [t['o']]
                    for o in cand:
                        if o.get('k') == 'const' and o.get('constdef') in targets and 'val' not in o:
                            hit = (len(blk['stmts']), o)
                            break
                if hit is None:
                    i += 1
                    continue
                si, o = hit
                key = o['constdef']
                tmp = len(body['locals'])
                body['locals'].append({'ty': o.get('ty'), 'name': None})
                tail = {'cleanup': blk.get('cleanup', False), 'stmts': blk['stmts'][si:], 'term': blk['term']}
                at = (blk['stmts'][si].get('at') if si < len(blk['stmts']) else blk['term'].get('at'))
                nb = len(body['blocks'])
                body['blocks'].append(tail)
                blk['stmts'] = blk['stmts'][:si]
                blk['term'] = {'k': 'call', 'fn': {'path': key, 'args': list(targets[key].get('generics') or []), 'local': True, 'crate': j.get('crate'),
                                                   'full': key, 'name': key.split('::')[-1]},
                               'args': [], 'dest': {'l': tmp, 'p': [], 'ty': o.get('ty')}, 'target': nb, 'unwind': None, 'at': at, 'fn_at': at, 'exp': False}
                ty = o.get('ty')
                o.clear()
                o.update({'k': 'copy', 'p': {'l': tmp, 'p': [], 'ty': ty}})
                n += 1
                # the same block may use further constants: look at it again (its tail is a new block, visited later)
    for key, b in targets.items():
        b['def_kind'] = 'Fn'
        b['const_init'] = True
        b['vis'] = 'Restricted(const-init)'
        b.setdefault('sig', 'fn() -> ' + str((b.get('locals') or [{}])[0].get('ty')))
    return n



PTR_METHOD_ALIASES = {
    'read': ('std::ptr::read', None), 'read_unaligned': ('std::ptr::read_unaligned', None), 'read_volatile': ('std::ptr::read_volatile', None),
    'write': ('std::ptr::write', None), 'write_unaligned': ('std::ptr::write_unaligned', None), 'write_volatile': ('std::ptr::write_volatile', None),
    'copy_from_nonoverlapping': ('std::ptr::copy_nonoverlapping', (1, 0, 2)), 'copy_to_nonoverlapping': ('std::ptr::copy_nonoverlapping', (0, 1, 2)),
    'copy_from': ('std::ptr::copy', (1, 0, 2)), 'copy_to': ('std::ptr::copy', (0, 1, 2)),
    'drop_in_place': ('std::ptr::drop_in_place', None),
}


def canonicalise_ptr_methods(j):
    """the inherent methods of raw pointers are aliases of the free functions of `core::ptr` (`p.read()` is `ptr::read(p)`,
    `dst.copy_from_nonoverlapping(src, n)` is `ptr::copy_nonoverlapping(src, dst, n)`), and `p.cast::<U>()` is `p as *mut U`:
    rewritten to the spelling the rules know"""
    n = 0
    for b in j['bodies']:
        for body in [b] + list(b.get('promoted') or []):
            for blk in body['blocks']:
                t = blk['term']
                if t['k'] != 'call' or not t.get('fn'):
                    continue
                path = t['fn'].get('path', '')
                if not path.startswith(('std::ptr::mut_ptr::<impl *mut T>::', 'std::ptr::const_ptr::<impl *const T>::')):
                    continue
                m = path.rsplit('::', 1)[1]
                if m in ('cast', 'cast_mut', 'cast_const') and len(t['args']) == 1 and t.get('target') is not None:
                    blk['stmts'].append({'k': 'assign', 'lhs': t['dest'], 'rv': {'k': 'cast', 'ck': 'PtrToPtr', 'o': t['args'][0], 'ty': t['dest'].get('ty')},
                                         'at': t.get('at'), 'exp': False})
                    blk['term'] = {'k': 'goto', 'target': t['target'], 'at': t.get('at')}
                    n += 1
                    continue
                if m in PTR_METHOD_ALIASES:
                    newp, perm = PTR_METHOD_ALIASES[m]
                    if perm is not None:
                        if len(t['args']) != len(perm):
                            continue
                        t['args'] = [t['args'][i] for i in perm]
                    fa = t['fn'].get('args') or []
                    t['fn'] = dict(t['fn'], path=newp, name=newp.split('::')[-1], full=newp, args=fa[:1])
                    t['fn'].pop('impl_self', None)
                    n += 1
    # `ptr::from_ref(r)` / `ptr::from_mut(r)` is `r as *const _` / `r as *mut _`, i.e. `&raw const *r` / `&raw mut *r`
    for b in j['bodies']:
        for body in [b] + list(b.get('promoted') or []):
            for blk in body['blocks']:
                t = blk['term']
                if t['k'] != 'call' or not t.get('fn') or t['fn'].get('path') not in ('std::ptr::from_ref', 'std::ptr::from_mut') or t.get('target') is None:
                    continue
                if len(t['args']) != 1 or t['args'][0].get('k') not in ('copy', 'move') or not isinstance(t['args'][0].get('p'), dict):
                    continue
                src = dict(t['args'][0]['p'])
                src['p'] = list(src.get('p') or []) + ['*']
                fa = t['fn'].get('args') or []
                src['ty'] = str(fa[0]) if fa else src.get('ty')
                blk['stmts'].append({'k': 'assign', 'lhs': t['dest'],
                                     'rv': {'k': 'rawptr', 'm': 'Const' if t['fn']['path'].endswith('from_ref') else 'Mut', 'p': src},
                                     'at': t.get('at'), 'exp': False})
                blk['term'] = {'k': 'goto', 'target': t['target'], 'at': t.get('at')}
                n += 1
    # `ptr::write(cell, v)` / `cell.write(v)` of a whole `MaybeUninit<_>` (no drop glue: nothing is dropped by `*cell = v` either)
    # is the assignment `*cell = v`
    for b in j['bodies']:
        for body in [b] + list(b.get('promoted') or []):
            for blk in body['blocks']:
                t = blk['term']
                if t['k'] != 'call' or not t.get('fn') or t['fn'].get('path') != 'std::ptr::write' or t.get('target') is None:
                    continue
                fa = t['fn'].get('args') or []
                if not (fa and str(fa[0]).replace(' ', '').startswith('std::mem::MaybeUninit<') and len(t['args']) == 2):
                    continue
                dst = t['args'][0]
                if dst.get('k') not in ('copy', 'move') or not isinstance(dst.get('p'), dict):
                    continue
                lhs = dict(dst['p'])
                lhs['p'] = list(lhs.get('p') or []) + ['*']
                lhs['ty'] = str(fa[0])
                blk['stmts'].append({'k': 'assign', 'lhs': lhs, 'rv': {'k': 'use', 'o': t['args'][1]}, 'at': t.get('at'), 'exp': False})
                blk['term'] = {'k': 'goto', 'target': t['target'], 'at': t.get('at')}
                n += 1
    return n



def hoist_terminator_construction(j):
    """`push_send(&mut self, sig: &Signal<T>) { self.wait_list.push_back(sig.get_terminator()) }` - the helper builds the
    terminator its callers used to build.  Rewritten into the pinned contract: inside the helper the one `get_terminator(param)`
    becomes a move of the parameter (now of terminator type), and every call site gets the `get_terminator(arg)` call in front of
    it.  Only when the helper uses the signal parameter for nothing else; anything else is left alone (the rules then report the
    shape they do not know)."""
    bodies = {b['key']: b for b in j['bodies']}
    done = 0
    for name in ('push_send', 'push_recv'):
        key = 'internal::ChannelInternal::<T>::' + name
        h = bodies.get(key)
        if h is None or h.get('arg_count') != 2:
            continue
        ty = str(h['locals'][2].get('ty', '')).replace(' ', '')
        if ty not in ('&signal::Signal<T>', "&'_signal::Signal<T>"):
            continue
        # uses of _2 in the helper: exactly one, as the (moved / copied, possibly through a reborrow temp) argument of get_terminator
        gt = []
        other = 0
        reborrow = {}   # local -> (block, stmt) of `_k = &(*_2)`

        def mentions(x):
            return isinstance(x, dict) and ((x.get('l') == 2 and 'p' in x) or any(mentions(v) for v in x.values())) or \
                (isinstance(x, list) and any(mentions(v) for v in x))
        for blk in h['blocks']:
            for st in blk['stmts']:
                if st['k'] == 'assign' and st['rv'].get('k') == 'ref' and st['rv']['p'].get('l') == 2 and st['rv']['p'].get('p') == ['*'] \
                        and not st['lhs'].get('p'):
                    reborrow[st['lhs']['l']] = (blk, st)
                elif mentions(st):
                    other += 1
        for blk in h['blocks']:
            t = blk['term']
            if t['k'] == 'call' and t.get('fn') and t['fn']['path'].endswith('Signal::<T>::get_terminator') and len(t['args']) == 1 \
                    and t['args'][0].get('k') in ('copy', 'move') and not t['args'][0]['p'].get('p') \
                    and (t['args'][0]['p'].get('l') == 2 or t['args'][0]['p'].get('l') in reborrow):
                gt.append(blk)
            elif mentions(t) or any(isinstance(a, dict) and a.get('k') in ('copy', 'move') and a['p'].get('l') in reborrow for a in (t.get('args') or [])):
                other += 1
        if len(reborrow) > 1:
            continue
        if len(gt) != 1 or other:
            continue
        blk = gt[0]
        t = blk['term']
        fn_tpl = dict(t['fn'])
        term_ty = t['dest'].get('ty') or 'signal::SignalTerminator<T>'
        # 1. the helper: parameter 2 is the terminator
        for k_, (rb, rst) in reborrow.items():
            rb['stmts'].remove(rst)
        h['locals'][2] = dict(h['locals'][2], ty=term_ty)
        blk['stmts'].append({'k': 'assign', 'lhs': t['dest'], 'rv': {'k': 'use', 'o': {'k': 'move', 'p': {'l': 2, 'p': [], 'ty': term_ty}}},
                             'at': t.get('at'), 'exp': False})
        blk['term'] = {'k': 'goto', 'target': t['target'], 'at': t.get('at')}
        if isinstance(h.get('sig'), str):
            h['sig'] = h['sig'].replace('&signal::Signal<T>', term_ty)
        # 2. the call sites
        for b in j['bodies']:
            for body in [b] + list(b.get('promoted') or []):
                nblocks = len(body['blocks'])
                for bi in range(nblocks):
                    cb = body['blocks'][bi]
                    ct = cb['term']
                    if ct['k'] != 'call' or not ct.get('fn') or ct['fn'].get('path') != key or len(ct['args']) != 2:
                        continue
                    tmp = len(body['locals'])
                    body['locals'].append({'ty': term_ty, 'name': None})
                    nb = len(body['blocks'])
                    call2 = dict(ct)
                    call2['args'] = [ct['args'][0], {'k': 'move', 'p': {'l': tmp, 'p': [], 'ty': term_ty}}]
                    body['blocks'].append({'stmts': [], 'term': call2})
                    for kx in ('cleanup',):
                        if kx in cb:
                            body['blocks'][-1][kx] = cb[kx]
                    cb['term'] = {'k': 'call', 'fn': fn_tpl, 'args': [ct['args'][1]], 'dest': {'l': tmp, 'p': [], 'ty': term_ty},
                                  'target': nb, 'unwind': ct.get('unwind'), 'fn_at': ct.get('fn_at'), 'at': ct.get('at'), 'exp': False}
                    done += 1
    return done


def normalise_ctor_param_order(j):
    """`ChannelInternal::new(bounded: bool, capacity: usize)` with its two parameters in the other order (all call sites adapted - a call
    left in the old order does not type-check, the types differ): the locals 1 and 2 of the body and the two arguments of every call are
    swapped back, so that `bounded` is parameter 1 as the rules (H8, L3) know it."""
    key = 'internal::ChannelInternal::<T>::new'
    n = 0
    for b in j['bodies']:
        if b['key'] != key or b.get('arg_count') != 2:
            continue
        t1 = str(b['locals'][1].get('ty', '')).strip()
        t2 = str(b['locals'][2].get('ty', '')).strip()
        if not (t1 == 'usize' and t2 == 'bool'):
            return 0

        def swap(x):
            if isinstance(x, dict):
                if 'l' in x and 'p' in x and isinstance(x['l'], int) and x['l'] in (1, 2):
                    x['l'] = 3 - x['l']
                for v in x.values():
                    swap(v)
            elif isinstance(x, list):
                for v in x:
                    swap(v)
        for body in [b] + list(b.get('promoted') or []):
            swap(body['blocks'])
        b['locals'][1], b['locals'][2] = b['locals'][2], b['locals'][1]
        n += 1
    if not n:
        return 0
    for b in j['bodies']:
        for body in [b] + list(b.get('promoted') or []):
            for blk in body['blocks']:
                t = blk['term']
                if t['k'] == 'call' and t.get('fn') and t['fn'].get('path') == key and len(t['args']) == 2:
                    t['args'] = [t['args'][1], t['args'][0]]
                    n += 1
    return n


def adopt_terminator_wake(j):
    """`Signal::wake(this: *const Signal<T>, state)` moved onto the capability type that wraps the pointer
    (`impl SignalTerminator { unsafe fn finish(&self, state: u8) { let this = self.0; .. } }`): when `Signal::wake` is gone and
    exactly one private method of SignalTerminator has its signature with the pointer replaced by the terminator, and that method
    uses `self` only to read the wrapped pointer, it is rewritten into the pinned form - parameter 1 becomes the pointer, every
    `self.0` becomes the parameter, call sites pass `term.0` - and takes the pinned name.  Anything else is left alone."""
    bodies = {b['key']: b for b in j['bodies']}
    canon_key = 'signal::Signal::<T>::wake'
    if canon_key in bodies:
        return None
    cands = []
    for b in j['bodies']:
        if b.get('def_kind') != 'AssocFn' or b.get('impl_trait') or b.get('vis') == 'Public' or b.get('arg_count') != 2:
            continue
        if nolt(b.get('impl_self') or '') != 'signal::SignalTerminator<T>':
            continue
        t1 = nolt(b['locals'][1]['ty'])
        if t1 not in ('&signal::SignalTerminator<T>', 'signal::SignalTerminator<T>') or b['locals'][2]['ty'] != 'u8' or b['locals'][0]['ty'] != '()':
            continue
        cands.append(b)
    if len(cands) != 1:
        return None
    b = cands[0]
    byref = nolt(b['locals'][1]['ty']).startswith('&')
    prefix_len = 2 if byref else 1

    def strip(pl):
        """place based on local 1 must start with the projection to field 0: returns False if it does not"""
        if pl.get('l') != 1:
            return True
        pr = pl.get('p') or []
        if byref:
            ok = len(pr) >= 2 and pr[0] == '*' and isinstance(pr[1], dict) and pr[1].get('f') == '0'
        else:
            ok = len(pr) >= 1 and isinstance(pr[0], dict) and pr[0].get('f') == '0'
        if not ok:
            return False
        pl['p'] = pr[prefix_len:]
        return True

    nb = json.loads(json.dumps(b))
    ok = [True]

    def walk(x):
        if isinstance(x, dict):
            if 'l' in x and 'p' in x and isinstance(x.get('p'), list):
                if not strip(x):
                    ok[0] = False
            for v in x.values():
                walk(v)
        elif isinstance(x, list):
            for v in x:
                walk(v)

    walk(nb['blocks'])
    if not ok[0]:
        return None
    nb['locals'][1] = {'ty': '*const signal::Signal<T>', 'name': 'this'}
    old_key = b['key']
    nb['key'] = canon_key
    nb['actual_key'] = old_key
    nb['name'] = 'wake'
    nb['impl_self'] = 'signal::Signal<T>'
    nb['sig'] = 'unsafe fn(*const signal::Signal<T>, u8)'
    # call sites
    for c in j['bodies']:
        for body in [c] + list(c.get('promoted') or []):
            for blk in body['blocks']:
                t = blk['term']
                if t['k'] == 'call' and t.get('fn') and t['fn'].get('path') == old_key:
                    a0 = t['args'][0] if t.get('args') else None
                    if not (a0 and a0.get('k') in ('copy', 'move') and 'p' in a0):
                        return None
    for c in j['bodies']:
        for body in [c] + list(c.get('promoted') or []):
            for blk in body['blocks']:
                t = blk['term']
                if t['k'] == 'call' and t.get('fn') and t['fn'].get('path') == old_key:
                    a0 = t['args'][0]
                    proj = (['*'] if byref else []) + [{'f': '0', 'i': 0, 'ty': '*const signal::Signal<T>'}]
                    t['args'][0] = {'k': 'copy', 'p': {'l': a0['p']['l'], 'p': list(a0['p'].get('p') or []) + proj, 'ty': '*const signal::Signal<T>'}}
                    t['fn'] = dict(t['fn'], path=canon_key, name='wake', full=canon_key, impl_self='signal::Signal<T>')
    j['bodies'] = [x for x in j['bodies'] if x is not b] + [nb]
    return old_key



def split_sig(sig):
    """'fn(A, B<C, D>, E) -> R' -> (prefix up to and including '(', [inputs], rest from ')')"""
    i = sig.index('fn(') + 3
    depth = 0
    parts, cur = [], ''
    k = i
    while k < len(sig):
        c = sig[k]
        if c in '(<[':
            depth += 1
        elif c in ')>]':
            if depth == 0 and c == ')':
                break
            if not (c == '>' and k > 0 and sig[k - 1] == '-'):
                depth -= 1
        if c == ',' and depth == 0:
            parts.append(cur.strip())
            cur = ''
        else:
            cur += c
        k += 1
    if cur.strip():
        parts.append(cur.strip())
    return sig[:i], parts, sig[k:]


def fold_const_switches(b, enums):
    """in a body whose flag parameters are bound (`const_params`), a switch on such a flag (or on a single-assignment copy,
    negation or discriminant of it) has one feasible target: it becomes a goto, so that the dead arm is no longer part of the
    body's control-flow graph (call-graph rules then do not see calls that cannot happen)"""
    cp = b.get('const_params') or {}
    known = {}
    for n, v in cp.items():
        if v[0] == 'bool':
            known[int(n)] = ('int', int(v[1]))
        else:
            known[int(n)] = ('enum', canon(v[1]), v[2])
    ndefs = {}
    borrowed = set()
    for blk in b['blocks']:
        for st in blk['stmts']:
            if st['k'] == 'assign':
                ndefs[st['lhs']['l']] = ndefs.get(st['lhs']['l'], 0) + 1
                if st['rv']['k'] in ('ref', 'rawptr') and not st['rv']['p']['p'] and st['rv'].get('bk') not in ('shared', 'Shared', None):
                    borrowed.add(st['rv']['p']['l'])
        t = blk['term']
        if t['k'] == 'call' and t.get('dest'):
            ndefs[t['dest']['l']] = ndefs.get(t['dest']['l'], 0) + 1

    def val(o):
        if o.get('k') == 'const' and o.get('ty') == 'bool' and o.get('val') in ('0', '1'):
            return ('int', int(o['val']))
        if o.get('k') in ('copy', 'move') and not o['p']['p']:
            return known.get(o['p']['l'])
        return None

    for _ in range(6):
        grew = False
        for blk in b['blocks']:
            for st in blk['stmts']:
                if st['k'] != 'assign' or st['lhs']['p'] or st['lhs']['l'] in known or ndefs.get(st['lhs']['l']) != 1 or st['lhs']['l'] in borrowed:
                    continue
                l = st['lhs']['l']
                if l <= b.get('arg_count', 0):
                    continue
                rv = st['rv']
                v = None
                if rv['k'] == 'use':
                    v = val(rv['o'])
                elif rv['k'] == 'un' and rv.get('op') == 'Not':
                    x = val(rv['a'])
                    if x is not None and x[0] == 'int':
                        v = ('int', 1 - x[1])
                elif rv['k'] == 'discr' and not rv['p']['p'] and known.get(rv['p']['l'], (None,))[0] == 'enum':
                    e = known[rv['p']['l']]
                    for name, d in rv.get('variants') or []:
                        if name == e[2]:
                            v = ('int', int(d))
                if v is not None:
                    known[l] = v
                    grew = True
        if not grew:
            break
    for blk in b['blocks']:
        t = blk['term']
        if t['k'] == 'switch':
            v = val(t['o'])
            if v is not None and v[0] == 'int':
                tgt = t.get('otherwise')
                for tv, bb in t['targets']:
                    if int(tv) == v[1]:
                        tgt = bb
                if tgt is not None:
                    blk['term'] = {'k': 'goto', 'target': tgt, 'at': t.get('at')}



def specialise_flags(j, cap=48):
    """A crate-private helper that takes a flag (`bool`, or a private field-less enum such as `Side::{Send, Recv}`) which every one
    of its call sites supplies as a compile-time constant is two helpers written as one (`cancel_signal(sig, recv_side)` for
    `cancel_send_signal(sig)` / `cancel_recv_signal(sig)`).  Each (helper, constant) pair becomes a body of its own whose flag
    parameter is bound to the constant (`const_params`), call sites drop the argument, and the unspecialised body - now
    without callers - is removed.  Repeats, so that a flag handed down through several layers is resolved layer by layer.
    Nothing is done for a helper that is public, implements a trait, is used as a function value, reassigns or borrows the
    parameter, or has one call site whose argument is not a constant."""
    enums = {}
    for a in j['adts']:
        if a.get('kind') == 'Enum' and a.get('variants') and not any(v['fields'] for v in a['variants']) and a.get('local', True):
            enums[canon(a['name'])] = a

    def all_bodies():
        for b in j['bodies']:
            yield b, b
            for pb in b.get('promoted') or []:
                yield pb, b

    def assigns_of(b, l):
        n = []
        for blk in b['blocks']:
            for st in blk['stmts']:
                if st['k'] == 'assign' and st['lhs']['l'] == l and not st['lhs']['p']:
                    n.append(st['rv'])
                elif st['k'] == 'assign' and st['lhs']['l'] == l:
                    n.append(None)
            t = blk['term']
            if t['k'] == 'call' and t.get('dest') and t['dest']['l'] == l:
                n.append(None)
        return n

    def borrowed(b, l):
        for blk in b['blocks']:
            for st in blk['stmts']:
                if st['k'] == 'assign' and st['rv']['k'] in ('ref', 'rawptr') and st['rv']['p']['l'] == l and not st['rv']['p']['p'] \
                        and st['rv'].get('bk') not in ('shared', 'Shared', None):
                    return True
        return False

    def const_of(b, o, depth=0):
        if o.get('k') == 'const':
            if o.get('ty') == 'bool' and o.get('val') in ('0', '1'):
                return ('bool', o['val'])
            return None
        if o.get('k') not in ('copy', 'move') or o['p']['p'] or depth > 6:
            return None
        l = o['p']['l']
        cp = b.get('const_params') or {}
        if str(l) in cp:
            return tuple(cp[str(l)])
        if 1 <= l <= b.get('arg_count', 0):
            return None
        defs = assigns_of(b, l)
        if len(defs) != 1 or defs[0] is None or borrowed(b, l):
            return None
        rv = defs[0]
        if rv['k'] == 'use':
            return const_of(b, rv['o'], depth + 1)
        if rv['k'] == 'agg' and rv.get('ak') == 'adt' and canon(rv.get('name', '')) in enums and not rv.get('fields'):
            return ('enum', rv['name'], rv['variant'])
        return None

    made = 0
    for _round in range(8):
        bodies = {b['key']: b for b in j['bodies']}
        # function values (not calls) referring to a body: never specialised
        fnvals = set()
        for b, _ in all_bodies():
            for blk in b['blocks']:
                for st in blk['stmts']:
                    if st['k'] == 'assign':
                        for o in operands(st['rv']):
                            if o.get('k') == 'const' and o.get('fn'):
                                fnvals.add(o['fn'].get('path'))
                t = blk['term']
                if t['k'] == 'call':
                    for o in t.get('args') or []:
                        if o.get('k') == 'const' and o.get('fn'):
                            fnvals.add(o['fn'].get('path'))
        sites = {}
        for b, owner in all_bodies():
            for blk in b['blocks']:
                t = blk['term']
                if t['k'] == 'call' and t.get('fn') and t['fn'].get('path') in bodies:
                    sites.setdefault(t['fn']['path'], []).append((b, t))
        changed = False
        for key, b in list(bodies.items()):
            if b.get('def_kind') not in ('Fn', 'AssocFn') or b.get('impl_trait') or b.get('vis') == 'Public' or key in fnvals:
                continue
            if key in CANONICAL or not sites.get(key) or '{closure' in key:
                continue
            for i in range(1, b.get('arg_count', 0) + 1):
                if str(i) in (b.get('const_params') or {}):
                    continue
                ty = nolt(b['locals'][i]['ty'])
                if ty != 'bool' and canon(ty) not in enums:
                    continue
                if assigns_of(b, i) or borrowed(b, i):
                    continue
                # position of the parameter among the arguments still passed
                live = [n for n in range(1, b['arg_count'] + 1) if str(n) not in (b.get('const_params') or {})]
                pos = live.index(i)
                vals = []
                for cb, t in sites[key]:
                    if len(t['args']) != len(live):
                        vals = None
                        break
                    v = const_of(cb, t['args'][pos])
                    if v is None:
                        vals = None
                        break
                    vals.append(v)
                if not vals or made + len(set(vals)) > cap:
                    continue
                pname = b['locals'][i].get('name') or ('arg%d' % i)
                newkeys = {}
                for v in sorted(set(vals)):
                    nb = json.loads(json.dumps(b))
                    suffix = '__%s_%s' % (pname, v[-1])
                    nb['key'] = key + suffix
                    if nb.get('name'):
                        nb['name'] = nb['name'] + suffix
                    nb['specialised_from'] = b.get('specialised_from') or key
                    cp = dict(nb.get('const_params') or {})
                    cp[str(i)] = list(v)
                    nb['const_params'] = cp
                    try:
                        pre, ins, rest = split_sig(nb['sig'])
                        if len(ins) == len(live):
                            del ins[pos]
                            nb['sig'] = pre + ', '.join(ins) + rest
                    except Exception:
                        pass
                    fold_const_switches(nb, enums)
                    j['bodies'].append(nb)
                    newkeys[v] = nb['key']
                    made += 1
                for (cb, t), v in zip(sites[key], vals):
                    t['fn'] = dict(t['fn'], path=newkeys[v], name=newkeys[v].split('::')[-1])
                    if t['fn'].get('full'):
                        t['fn']['full'] = t['fn']['full'] + '__%s_%s' % (pname, v[-1]) if '::<' not in t['fn']['full'].split('::')[-1] else t['fn']['full']
                    t['fn'].pop('resolved', None)
                    del t['args'][pos]
                j['bodies'] = [x for x in j['bodies'] if x is not b]
                changed = True
                break
            if changed:
                break
        if not changed:
            break
    return made



def resolve(j):
    """returns {actual key: canonical key}; rewrites j in place"""
    try:
        normalise_modules(j)
    except Exception:
        pass
    try:
        normalise_generics(j)
    except Exception:
        pass
    try:
        resolve_flag_enums(j)
    except Exception:
        pass
    try:
        resolve_fields(j)
    except Exception:
        pass
    try:
        resolve_variants(j)
    except Exception:
        pass
    try:
        canonicalise_ptr_methods(j)
    except Exception:
        pass
    try:
        adopt_terminator_wake(j)
    except Exception:
        pass
    try:
        hoist_terminator_construction(j)
    except Exception:
        pass
    try:
        normalise_ctor_param_order(j)
    except Exception:
        pass
    try:
        materialise_branching_consts(j)
    except Exception:
        pass
    try:
        specialise_flags(j)
    except Exception:
        pass
    try:
        collapse_forwarders(j)
    except Exception:
        pass
    bodies = {b['key']: b for b in j['bodies'] if not str(b.get('def_kind', '')).startswith(('Const', 'AssocConst'))}
    missing = [r for r in ROLES if r[0] not in bodies]
    if not missing:
        return {}
    tmpfacts = None
    aliases = {}
    progress = True
    rounds = 0
    while progress and rounds < 4:
        progress = False
        rounds += 1
        for key, sig, extra in missing:
            if key in aliases.values():
                continue
            cands = []
            for k, b in bodies.items():
                if k in CANONICAL or k in aliases:
                    continue
                if b.get('def_kind') not in ('Fn', 'AssocFn') or b.get('impl_trait') or b.get('vis') == 'Public':
                    continue
                if sig is not None and nsig(b) != sig:
                    continue
                if extra in ('polF', 'polT') and tmpfacts is None:
                    for bb in j['bodies']:
                        bb.pop('_roles_tmp', None)
                    tmpfacts = mir.Facts(json.loads(json.dumps(j)), 'roles-tmp')
                try:
                    if extra_ok(extra, b, bodies, tmpfacts, aliases):
                        cands.append(k)
                except Exception:
                    continue
            if len(cands) == 1:
                aliases[cands[0]] = key
                progress = True
    if aliases:
        rename(j, aliases)
        try:
            fix_negated(j)
        except Exception:
            pass
    return aliases


NEGATABLE = ('signal::Signal::<T>::will_wake',)


def fix_negated(j):
    """a boolean helper renamed together with its polarity (`will_wake` -> `waker_changed`, returning the negation): the body
    keeps the canonical name without the final `!`, and every call site gets the `!` instead - same program"""
    out = []
    for b in j['bodies']:
        if b['key'] not in NEGATABLE or not b.get('actual_key'):
            continue
        rets = [(blk, i, s) for blk in b['blocks'] for i, s in enumerate(blk['stmts'])
                if s['k'] == 'assign' and not s['lhs']['p'] and s['lhs']['l'] == 0]
        if not rets or not all(s['rv']['k'] == 'un' and s['rv'].get('op') == 'Not' for _, _, s in rets):
            continue
        for blk, i, s in rets:
            s['rv'] = {'k': 'use', 'o': s['rv']['a']}
        key = b['key']
        for c in j['bodies']:
            for body in [c] + list(c.get('promoted') or []):
                nblocks = []
                for blk in body['blocks']:
                    t_ = blk['term']
                    if t_['k'] == 'call' and t_.get('fn') and t_['fn'].get('path') == key and t_.get('target') is not None and not t_['dest']['p']:
                        d = t_['dest']
                        nb = {'cleanup': blk.get('cleanup', False),
                              'stmts': [{'k': 'assign', 'lhs': d, 'rv': {'k': 'un', 'op': 'Not', 'a': {'k': 'copy', 'p': d}}, 'at': t_.get('at'), 'exp': False}],
                              'term': {'k': 'goto', 'target': t_['target'], 'at': t_.get('at')}}
                        t_['target'] = len(body['blocks']) + len(nblocks)
                        nblocks.append(nb)
                body['blocks'].extend(nblocks)
        out.append(key)
    return out


def rename(j, aliases):
    def fix(path):
        if path in aliases:
            return aliases[path]
        for a, c in aliases.items():
            if path.startswith(a + '::{'):
                return c + path[len(a):]
        return path

    for b in j['bodies']:
        nk = fix(b['key'])
        if nk != b['key']:
            b['actual_key'] = b['key']
            b['key'] = nk
            if b.get('name') and b['key'].split('::')[-1] != b['name'] and '{' not in b['key'].split('::')[-1]:
                b['name'] = b['key'].split('::')[-1]
        for body in [b] + list(b.get('promoted') or []):
            for blk in body['blocks']:
                t = blk['term']
                if t['k'] == 'call' and t.get('fn'):
                    fn = t['fn']
                    for fld in ('path', 'resolved'):
                        if fn.get(fld):
                            nv = fix(fn[fld])
                            if nv != fn[fld]:
                                fn[fld] = nv
                                if fld == 'path':
                                    fn['name'] = nv.split('::')[-1]
                for s in blk['stmts']:
                    if s['k'] == 'assign' and s['rv']['k'] == 'agg' and s['rv'].get('ak') == 'closure' and s['rv'].get('name'):
                        s['rv']['name'] = fix(s['rv']['name'])
                    if s['k'] == 'assign':
                        for o in operands(s['rv']):
                            if o.get('k') == 'const' and o.get('fn'):
                                for fld in ('path', 'resolved'):
                                    if o['fn'].get(fld):
                                        o['fn'][fld] = fix(o['fn'][fld])


def operands(rv):
    k = rv['k']
    if k in ('use', 'cast', 'repeat'):
        return [rv['o']]
    if k == 'bin':
        return [rv['a'], rv['b']]
    if k == 'un':
        return [rv['a']]
    if k == 'agg':
        return list(rv['fields'])
    return []
