"""P rules: KanalPtr encoding.  DESIGN.md §3.8."""
from engine import rule
import fam
import sem
from sem import labels, has, contains
from mir import fmt, canon, is_const

PK = 'pointer::KanalPtr::<T>::'
PTR_READ = ('std::ptr::read', 'std::ptr::read_unaligned', 'std::ptr::read_volatile')
PTR_WRITE = ('std::ptr::write', 'std::ptr::write_unaligned', 'std::ptr::write_volatile')
PTR_COPY = ('std::ptr::copy_nonoverlapping', 'std::ptr::copy', 'std::intrinsics::copy_nonoverlapping', 'std::intrinsics::copy')


def ret_paths(ctx, b, include_panic=False):
    ps = ctx.paths(b)
    if ps is None:
        ctx.violate(b.key, None, 'cannot analyse: path explosion', sig='paths')
        return
    for p in ps:
        if p.end == 'return' or (include_panic and p.end == 'panic'):
            yield p, ctx.sem(p)


def sizeof_T_sites(ctx):
    out = []
    for key, b in list(ctx.facts.bodies.items()) + list(ctx.facts.consts.items()):
        if key == '_' or key.endswith('::_'):
            continue  # `const _: () = assert!(size_of::<Sender<()>>() == ..)`: a compile-time layout assertion, evaluated by rustc
        live = b.live_blocks()
        for bb, t in b.all_calls():
            if bb not in live:
                continue  # e.g. inside a debug_assert!: compiled out of the analysed (release) semantics
            fn = t.get('fn')
            if fn and canon(fn['path']) == 'std::mem::size_of':
                out.append((key, bb, fn['args'], t.get('at')))
    return out


@rule('P1', ['C04'], 'one size predicate: every size_of comparison is `size_of::<T>() > size_of::<*mut T>()` or a zero-size test')
def p1(ctx):
    sites = sizeof_T_sites(ctx)
    for key, bb, args, at in sites:
        if args == ['T']:
            ctx.instance('%s size_of::<T>() bb%d' % (key, bb))
        ctx.oblige(1)
        if args not in (['T'], ['*mut T']):
            ctx.violate(key, None, 'size_of::<%s>() used in the encoding decision (only T and *mut T are recognised)' % ','.join(args), at=at, sig='sizeof-arg:' + ','.join(args))
    # align_of / size_of_val / literal sizes in predicates
    for key, b in ctx.facts.bodies.items():
        live_ = b.live_blocks()
        for bb, t in b.all_calls():
            if bb not in live_:
                continue  # a debug_assert!(.. align_of ..) is compiled out
            fn = t.get('fn')
            if fn and canon(fn['path']) in ('std::mem::align_of', 'std::mem::size_of_val', 'std::mem::align_of_val'):
                ctx.violate(key, None, '%s used (the encoding is decided by size only, consistently everywhere)' % canon(fn['path']), at=t.get('at'), sig='alignof')
    for key, b in ctx.facts.bodies.items():
        if not any(n == 'std::mem::size_of' for n in b.callee_names()):
            continue
        ps = ctx.paths(b)
        if ps is None:
            continue
        flagged = set()
        for p in ps:
            evs = ctx.sem(p)
            szcalls = [e for e in p.events if e.kind == 'call' and e.name == 'std::mem::size_of']
            for e in evs:
                if e.name == 'BR' and str(e.data['label']).startswith('unrec:sizeof'):
                    k = (e.raw.bb, e.data['label'])
                    if k not in flagged:
                        flagged.add(k)
                        ctx.violate(key, p, 'unrecognised size predicate %s (must be `size_of::<T>() > size_of::<*mut T>()` or `size_of::<T>() == 0` / `> 0`)' % e.data['label'], at=e.at, sig=e.data['label'])
                if e.name == 'BR?' and any(contains(e.data['val'], s.val) for s in szcalls):
                    k = (e.raw.bb, 'opaque')
                    if k not in flagged:
                        flagged.add(k)
                        ctx.violate(key, p, 'size_of result used in an unrecognised predicate: %s' % fmt(e.data['val']), at=e.at, sig='sizeof-opaque')
            for s in szcalls:
                used = any(e.name in ('BR', 'BR?') and contains(e.data['val'], s.val) for e in evs)
                later_branch = any(e.name in ('BR', 'BR?') and e.raw.idx > s.idx for e in evs)
                if not used and later_branch:
                    k = (s.bb, 'unused')
                    if k not in flagged:
                        flagged.add(k)
                        ctx.violate(key, p, 'size_of result does not feed a recognised predicate', at=s.at, sig='sizeof-unused')


def cell_get(v):
    """UnsafeCell::get(&self.0) of a KanalPtr"""
    return v is not None and v[0] == 'call' and v[2] == 'std::cell::UnsafeCell::get'


def touches(p, evs):
    """classify which storage a path touches"""
    t = set()
    for e in p.events:
        if e.kind == 'call':
            n = e.name
            a = e.args
            if n == 'std::mem::MaybeUninit::assume_init' and a:
                x = a[-1]
                if x[0] == 'load' and x[1][0] == 'deref' and cell_get(x[1][1]):
                    t.add('DEREF_STORED')
                else:
                    t.add('OWN_SLOT_TAKE')
            if n == 'std::mem::MaybeUninit::assume_init_read' and a:
                x = a[-1]
                if x[0] in ('ref', 'rawptr') and x[1][0] == 'local':
                    t.add('OWN_SLOT_TAKE')  # the by-reference spelling of `slot.assume_init()` on the receiver's own slot
                elif x[0] in ('ref', 'rawptr') and x[1][0] == 'pfield' and x[1][2] == 'data':
                    # `self.data.assume_init_read()`: std defines it as `self.as_ptr().read()` - the future's own slot, read bitwise
                    t.add('OWN_SLOT')
                    t.add('PTR_READ')
            if n in ('std::mem::MaybeUninit::as_ptr', 'std::mem::MaybeUninit::as_mut_ptr') and a:
                x = a[0]
                if cell_get(x) or (x[0] in ('ref', 'rawptr') and x[1][0] == 'deref' and cell_get(x[1][1])):
                    t.add('OWN_BITS')
                elif x[0] in ('ref', 'rawptr') and x[1][0] == 'pfield' and x[1][2] == 'data':
                    t.add('OWN_SLOT')
                elif x[0] in ('ref', 'rawptr') and x[1][0] == 'local':
                    t.add('LOCAL_SLOT')
            if n == 'pointer::store_as_kanal_ptr':
                t.add('BITCOPY')
            if n == 'std::mem::MaybeUninit::assume_init_drop' and a:
                x = a[0]
                if x[0] in ('ref', 'rawptr') and x[1][0] == 'pfield' and x[1][2] == 'data':
                    t.add('OWN_SLOT_DROP')
            if n == 'std::ptr::drop_in_place' and a:
                # `ptr::drop_in_place(self.data.as_mut_ptr())`: std's own definition of `assume_init_drop`
                x = a[0]
                while x is not None and x[0] == 'cast' and len(x) > 2:
                    x = x[2]
                if x is not None and x[0] == 'call' and x[2] == 'std::mem::MaybeUninit::as_mut_ptr' and x[3]:
                    y = x[3][0]
                    if y[0] in ('ref', 'rawptr') and y[1][0] == 'pfield' and y[1][2] == 'data':
                        t.add('OWN_SLOT_DROP')
            if n == 'signal::Signal::assume_init':
                t.add('VIA_SIGNAL')
            if n == 'signal::Signal::load_and_drop':
                t.add('VIA_SIGNAL_DROP')
            if n in PTR_READ:
                t.add('PTR_READ')
                x = a[-1] if a else None
                y = x
                while y is not None and y[0] == 'cast' and len(y) > 2:
                    y = y[2]
                if y is not None and y is not x and cell_get(y):
                    # `ptr::read(self.0.get() as *const T)`: the cell's own bits read as a T (the cast spelling of
                    # `(*self.0.get()).as_ptr() as *const T`); read as a `*mut T` it is the stored address
                    targ = ((getattr(e, 'fn', None) or {}).get('args') or [None])[0]
                    if targ == 'T':
                        t.add('OWN_BITS')
                    elif targ == '*mut T':
                        t.add('DEREF_STORED')
                if x is not None and x[0] == 'call' and x[2] in ('std::mem::MaybeUninit::as_ptr', 'std::mem::MaybeUninit::as_mut_ptr') and x[3] \
                        and x[3][0][0] in ('ref', 'rawptr') and x[3][0][1][0] == 'local':
                    t.add('OWN_SLOT_TAKE')  # ptr::read(slot.as_ptr()) of the receiver's own local slot
            def _cell_dst(x):
                y = x
                while y is not None and y[0] == 'cast' and len(y) > 2:
                    y = y[2]
                return y is not None and y is not x and cell_get(y)
            targ0 = ((getattr(e, 'fn', None) or {}).get('args') or [None])[0]
            if n in PTR_WRITE:
                if len(a) >= 2 and _cell_dst(a[-2]) and targ0 == 'T':
                    t.add('CELL_PTR_WRITE')  # `ptr::write(self.0.get() as *mut T, d)`: the value's own bytes go straight into the cell
                else:
                    t.add('PTR_WRITE')
            if n in PTR_COPY:
                if len(a) >= 3 and _cell_dst(a[-2]) and targ0 == 'T':
                    t.add('CELL_PTR_COPY')   # `copy_nonoverlapping(src, self.0.get() as *mut T, 1)`
                else:
                    t.add('PTR_COPY')
            if n == 'std::mem::zeroed':
                t.add('ZEROED')
            if n == 'std::mem::forget':
                t.add('FORGET')
            if n == 'std::mem::ManuallyDrop::new' and not any(x.kind == 'call' and x.name in (
                    'std::mem::ManuallyDrop::drop', 'std::mem::ManuallyDrop::into_inner', 'std::mem::ManuallyDrop::take') for x in p.events):
                t.add('FORGET')
            if n == 'signal::Signal::set_ptr':
                t.add('SET_PTR')
            if n == 'pointer::KanalPtr::new_owned':
                t.add('NEW_OWNED')
            if n == 'signal::Signal::new_async_ptr':
                t.add('NEW_ASYNC_PTR')
            if n == 'std::mem::MaybeUninit::new' and a and a[-1][0] == 'param':
                t.add('MU_NEW_PARAM')
            if n == 'pointer::KanalPtr::new_unchecked' and a and a[-1][0] == 'param':
                t.add('MU_NEW_PARAM')  # the address-storing constructor (its own body is checked as such) applied to the argument
        if e.kind == 'wr' and e.place[0] == 'deref' and cell_get(e.place[1]):
            t.add('CELL_WRITE')
    return t


def expect(ctx, key, p, got, must=(), mustnot=(), what=''):
    for m in must:
        if m not in got:
            ctx.violate(key, p, '%s: expected %s on this branch, touches %s' % (what, m, sorted(got)), sig=p.signature() + ':' + m)
    for m in mustnot:
        if m in got:
            ctx.violate(key, p, '%s: %s must not happen on this branch (touches %s)' % (what, m, sorted(got)), sig=p.signature() + ':!' + m)


def branch(evs):
    lb = labels(evs)
    big = 'T' if has(lb, 'big', 'T') else ('F' if has(lb, 'big', 'F') else None)
    zst = 'T' if has(lb, 'zst', 'T') else ('F' if has(lb, 'zst', 'F') else None)
    if zst == 'T' and big is None:
        big = 'F'  # a zero-sized T is not larger than a pointer (the size class was decided by testing zero first)
    if big == 'T' and zst is None:
        zst = 'F'
    return big, zst


@rule('P2', ['C04'], 'storage-selection polarity: big T goes through the stored address, small T lives in the pointer bits, ZST touches nothing')
def p2(ctx):
    def body(key):
        b = ctx.body(key)
        if b is None:
            ctx.violate(key, None, 'anchor missing', sig='anchor')
        return b

    # --- KanalPtr::read ---
    b = body(PK + 'read')
    if b is not None:
        ctx.instance(b.key)
        seen = set()
        for p, evs in ret_paths(ctx, b):
            big, zst = branch(evs)
            got = touches(p, evs)
            ctx.oblige(1, sample='read big=%s zst=%s touches %s' % (big, zst, sorted(got)))
            seen.add((big, zst))
            if zst == 'T':
                expect(ctx, b.key, p, got, must=('ZEROED',), mustnot=('DEREF_STORED', 'PTR_READ', 'OWN_BITS'), what='read of a zero-sized T')
            elif big == 'T':
                expect(ctx, b.key, p, got, must=('DEREF_STORED', 'PTR_READ'), mustnot=('OWN_BITS', 'ZEROED'), what='read of a T larger than a pointer')
            elif big == 'F':
                expect(ctx, b.key, p, got, must=('OWN_BITS', 'PTR_READ'), mustnot=('DEREF_STORED', 'ZEROED'), what='read of a pointer-sized-or-smaller T')
            else:
                ctx.violate(b.key, p, 'read does not decide on the size predicate')
            if 'FORGET' in got:
                ctx.violate(b.key, p, 'read forgets something')
        if not {('F', 'T'), ('T', 'F'), ('F', 'F')} <= seen:
            ctx.violate(b.key, None, 'read lacks one of its three cases (zst / big / small): %s' % sorted(seen, key=str), sig='cases')
    # --- KanalPtr::write ---
    b = body(PK + 'write')
    if b is not None:
        ctx.instance(b.key)
        for p, evs in ret_paths(ctx, b):
            big, zst = branch(evs)
            got = touches(p, evs)
            ctx.oblige(1, sample='write big=%s zst=%s touches %s' % (big, zst, sorted(got)))
            if big == 'T' and 'PTR_COPY' in got and 'PTR_WRITE' not in got:
                # `copy(&d); forget(d)`: the bits go to the stored address, the source is given up
                expect(ctx, b.key, p, got, must=('DEREF_STORED', 'PTR_COPY', 'FORGET'), mustnot=('BITCOPY', 'CELL_WRITE'), what='write of a large T')
            elif big == 'T':
                expect(ctx, b.key, p, got, must=('DEREF_STORED', 'PTR_WRITE'), mustnot=('BITCOPY', 'CELL_WRITE', 'FORGET'), what='write of a large T')
            elif big == 'F' and zst == 'F' and 'CELL_PTR_WRITE' in got:
                # moved into the cell in one step: `ptr::write` takes the value, there is nothing left to forget
                expect(ctx, b.key, p, got, must=('CELL_PTR_WRITE',), mustnot=('DEREF_STORED', 'PTR_WRITE', 'BITCOPY', 'FORGET'), what='write of a small T')
            elif big == 'F' and zst == 'F':
                expect(ctx, b.key, p, got, must=('BITCOPY', 'CELL_WRITE', 'FORGET'), mustnot=('DEREF_STORED', 'PTR_WRITE'), what='write of a small T')
            elif big == 'F' and zst == 'T':
                expect(ctx, b.key, p, got, must=('FORGET',), mustnot=('DEREF_STORED', 'PTR_WRITE', 'CELL_WRITE', 'BITCOPY'), what='write of a zero-sized T')
            else:
                ctx.violate(b.key, p, 'write does not decide on the size predicates')
    # --- KanalPtr::copy ---
    b = ctx.body(PK + 'copy')
    if b is not None:
        ctx.instance(b.key)
        for p, evs in ret_paths(ctx, b):
            big, zst = branch(evs)
            got = touches(p, evs)
            ctx.oblige(1)
            if big == 'T':
                expect(ctx, b.key, p, got, must=('DEREF_STORED', 'PTR_COPY'), mustnot=('BITCOPY', 'CELL_WRITE'), what='copy of a large T')
            elif big == 'F' and zst == 'F' and 'CELL_PTR_COPY' in got:
                expect(ctx, b.key, p, got, must=('CELL_PTR_COPY',), mustnot=('DEREF_STORED', 'BITCOPY', 'PTR_COPY'), what='copy of a small T')
            elif big == 'F' and zst == 'F':
                expect(ctx, b.key, p, got, must=('BITCOPY', 'CELL_WRITE'), mustnot=('DEREF_STORED',), what='copy of a small T')
            elif big == 'F' and zst == 'T':
                expect(ctx, b.key, p, got, mustnot=('DEREF_STORED', 'CELL_WRITE', 'BITCOPY', 'PTR_COPY'), what='copy of a zero-sized T')
    # --- constructors ---
    for nm, small_must, small_not in (('new_from', ('BITCOPY',), ('MU_NEW_PARAM',)), ('new_write_address_ptr', (), ('MU_NEW_PARAM', 'BITCOPY'))):
        b = body(PK + nm)
        if b is None:
            continue
        ctx.instance(b.key)
        for p, evs in ret_paths(ctx, b):
            big, zst = branch(evs)
            got = touches(p, evs)
            ctx.oblige(1, sample='%s big=%s touches %s' % (nm, big, sorted(got)))
            if big == 'T':
                expect(ctx, b.key, p, got, must=('MU_NEW_PARAM',), mustnot=('BITCOPY',), what='%s for a large T stores the address' % nm)
            elif big == 'F' and zst == 'T':
                expect(ctx, b.key, p, got, must=(), mustnot=small_not, what='%s for a zero-sized T (nothing to encode)' % nm)
            elif big == 'F':
                expect(ctx, b.key, p, got, must=small_must, mustnot=small_not, what='%s for a small T' % nm)
            else:
                ctx.violate(b.key, p, '%s does not decide on the size predicate' % nm)
    if ctx.has_async():
        b = body(PK + 'new_owned')
        if b is not None:
            ctx.instance(b.key)
            for p, evs in ret_paths(ctx, b, include_panic=True):
                big, zst = branch(evs)
                got = touches(p, evs)
                ctx.oblige(1)
                if big == 'T' and p.end != 'panic':
                    ctx.violate(b.key, p, 'new_owned returns for a T that does not fit into the pointer bits')
                if big == 'F':
                    if p.end == 'panic':
                        ctx.violate(b.key, p, 'new_owned panics for a small T')
                    if zst != 'T' and 'CELL_PTR_WRITE' in got:
                        # the value moved into the fresh cell with one `ptr::write`: nothing to encode separately, nothing left to forget
                        expect(ctx, b.key, p, got, must=('CELL_PTR_WRITE',), mustnot=('MU_NEW_PARAM', 'FORGET', 'BITCOPY'), what='new_owned')
                    else:
                        expect(ctx, b.key, p, got, must=('FORGET',) if zst == 'T' else ('BITCOPY', 'FORGET'), mustnot=('MU_NEW_PARAM',), what='new_owned')
    b = body('pointer::store_as_kanal_ptr')
    if b is not None:
        ctx.instance(b.key)
        for p, evs in ret_paths(ctx, b):
            big, zst = branch(evs)
            got = touches(p, evs)
            ctx.oblige(1)
            if zst == 'T':
                expect(ctx, b.key, p, got, mustnot=('PTR_COPY', 'PTR_READ', 'PTR_WRITE'), what='store_as_kanal_ptr of a ZST')
            elif zst == 'F':
                expect(ctx, b.key, p, got, must=('PTR_COPY',), what='store_as_kanal_ptr')
            else:
                # no zero-size test inside: a one-element typed copy of a zero-sized T copies nothing, so the test is an
                # optimisation, not a correctness condition; the copy itself must be there
                expect(ctx, b.key, p, got, must=('PTR_COPY',), what='store_as_kanal_ptr')
    # --- waiter-side tails (sibling group 1): recv / recv_timeout ---
    sib = {}
    for key in ('Receiver::<T>::recv', 'Receiver::<T>::recv_timeout'):
        b = body(key)
        if b is None:
            continue
        ctx.instance(key + ' tail')
        n = 0
        for p, evs in ret_paths(ctx, b):
            big, zst = branch(evs)
            if big is None:
                continue
            n += 1
            got = touches(p, evs)
            ctx.oblige(1, sample='%s tail big=%s touches %s' % (key, big, sorted(got & {'OWN_SLOT_TAKE', 'VIA_SIGNAL'})))
            if big == 'T':
                expect(ctx, key, p, got, must=('OWN_SLOT_TAKE',), mustnot=('VIA_SIGNAL',), what='final read of a large T (the sender wrote into the receiver\'s own slot)')
            else:
                expect(ctx, key, p, got, must=('VIA_SIGNAL',), mustnot=('OWN_SLOT_TAKE',), what='final read of a small T (the value is in the signal\'s pointer bits)')
            sib.setdefault(key, set()).add((big, frozenset(got & {'OWN_SLOT_TAKE', 'VIA_SIGNAL'})))
        if n == 0:
            ctx.violate(key, None, 'blocked receive tail does not select the storage by the size predicate', sig='no-branch')
    if len(set(map(frozenset, sib.values()))) > 1:
        ctx.violate('<siblings>', None, 'recv and recv_timeout disagree on the final read: %s' % {k: sorted(map(str, v)) for k, v in sib.items()}, sig='sibling-recv')
    if not ctx.has_async():
        return
    # --- futures (sibling groups 2-4) ---
    for fam_, suffix, tbl in (
        ('read_local_data', 'read_local_data', {'T': (('OWN_SLOT', 'PTR_READ'), ('VIA_SIGNAL',)), 'F': (('VIA_SIGNAL',), ('OWN_SLOT', 'PTR_READ'))}),
        ('drop_local_data', 'drop_local_data', {'T': (('OWN_SLOT_DROP',), ('VIA_SIGNAL_DROP',)), 'F': (('VIA_SIGNAL_DROP',), ('OWN_SLOT_DROP',))}),
    ):
        for fut in ('SendFuture', 'ReceiveFuture'):
            key = "future::%s::<'a, T>::%s" % (fut, suffix)
            b = ctx.body(key)
            if b is None:
                # the helper may be written out or live in a free function shared by both futures: then every use of the
                # future's local data on the poll/drop paths carries its own size decision (checked below)
                ctx.note('%s not present' % key)
                continue
            ctx.instance(key)
            n = 0
            for p, evs in ret_paths(ctx, b):
                big, zst = branch(evs)
                got = touches(p, evs)
                ctx.oblige(1, sample='%s big=%s touches %s' % (key, big, sorted(got)))
                if big is None:
                    if suffix == 'drop_local_data' and has(labels(evs), 'needs_drop', 'F') and not (got & {'OWN_SLOT_DROP', 'VIA_SIGNAL_DROP', 'PTR_READ', 'PTR_WRITE', 'PTR_COPY'}):
                        continue  # `if !needs_drop::<T>() { return }` folded into the helper: nothing to drop, nothing touched
                    ctx.violate(key, p, '%s does not decide on the size predicate' % suffix)
                    continue
                n += 1
                must, mustnot = tbl[big]
                expect(ctx, key, p, got, must=must, mustnot=mustnot, what='%s for %s T' % (suffix, 'large' if big == 'T' else 'small'))
    # local data touched directly on a future's own paths (helpers spliced or written out): slot <=> large T, signal bits <=> small T
    for key in ("<future::SendFuture<'_, T> as futures_core::Future>::poll", "<future::ReceiveFuture<'_, T> as futures_core::Future>::poll",
                "<future::SendFuture<'_, T> as std::ops::Drop>::drop", "<future::ReceiveFuture<'_, T> as std::ops::Drop>::drop"):
        b = ctx.body(key)
        if b is None:
            continue
        for p, evs in ret_paths(ctx, b):
            for e in evs:
                if e.name in ('FUT.read_local_data', 'FUT.drop_local_data') and e.data.get('derived'):
                    ctx.oblige(1, sample='%s: %s via %s' % (key, e.name, e.data.get('via')))
                    lb = labels(evs, upto=e.idx)
                    want = 'T' if e.data.get('via') == 'slot' else 'F'
                    if not has(lb, 'big', want) or has(lb, 'big', 'F' if want == 'T' else 'T'):
                        ctx.violate(key, p, 'the future\'s local data is %s through the %s although the size predicate says %s' % (
                            'read' if 'read' in e.name else 'dropped', 'data slot' if want == 'T' else 'signal bits', 'small T' if want == 'T' else 'large T'), at=e.at)
    for key in ("<future::SendFuture<'_, T> as futures_core::Future>::poll", "<future::ReceiveFuture<'_, T> as futures_core::Future>::poll"):
        b = body(key)
        if b is None:
            continue
        ctx.instance(key + ' registration')
        n = 0
        for p, evs in ret_paths(ctx, b):
            regs = [e for e in evs if e.name in ('PUSH_SEND', 'PUSH_RECV')]
            if not regs:
                continue
            big, zst = branch(evs)
            got = touches(p, evs)
            n += 1
            ctx.oblige(1, sample='%s registration big=%s touches %s' % (key, big, sorted(got & {'SET_PTR', 'OWN_SLOT'})))
            if big == 'T':
                expect(ctx, key, p, got, must=('SET_PTR', 'OWN_SLOT'), what='registration of a large T points the signal at the future\'s own slot')
                sp = [e for e in evs if e.name == 'SIG.set_ptr']
                if sp and sp[0].idx > regs[0].idx:
                    ctx.violate(key, p, 'set_ptr after the signal was published in the wait list', at=sp[0].at)
                for s in sp:
                    a = s.data['args'][1] if len(s.data['args']) > 1 else None
                    if not (a is not None and a[0] == 'call' and a[2] == 'pointer::KanalPtr::new_unchecked'):
                        ctx.violate(key, p, 'set_ptr is not given KanalPtr::new_unchecked(own slot address)', at=s.at)
            elif big == 'F':
                expect(ctx, key, p, got, mustnot=('SET_PTR',), what='registration of a small T keeps the bits already in the signal')
            else:
                ctx.violate(key, p, 'registration does not decide on the size predicate')
        if n == 0:
            ctx.violate(key, None, 'no registration path found', sig='no-registration')
    key = "future::SendFuture::<'a, T>::new"
    b = body(key)
    if b is not None:
        ctx.instance(key)
        for p, evs in ret_paths(ctx, b):
            big, zst = branch(evs)
            got = touches(p, evs)
            ctx.oblige(1, sample='SendFuture::new big=%s touches %s' % (big, sorted(got)))
            if big == 'T':
                expect(ctx, key, p, got, must=('MU_NEW_PARAM',), mustnot=('NEW_OWNED', 'NEW_ASYNC_PTR'), what='SendFuture::new for a large T keeps the value in `data`')
            elif big == 'F':
                expect(ctx, key, p, got, must=('NEW_OWNED', 'NEW_ASYNC_PTR'), mustnot=('MU_NEW_PARAM',), what='SendFuture::new for a small T keeps the value in the signal')
            else:
                ctx.violate(key, p, 'SendFuture::new does not decide on the size predicate')
            r = p.ret
            if r is not None and r[0] == 'agg':
                f = dict(zip(r[4], r[3]))
                st = f.get('state')
                if not (st is not None and st[0] == 'agg' and st[2] == 'Zero'):
                    ctx.violate(key, p, 'a new future does not start in state Zero')


BYVAL_CONV = ('Sender::<T>::to_async', 'AsyncSender::<T>::to_sync', 'Receiver::<T>::to_async', 'AsyncReceiver::<T>::to_sync')


@rule('P3', ['C04'], 'raw copies are typed single-element copies of T')
def p3(ctx):
    for key, b in ctx.facts.bodies.items():
        for bb, t in b.all_calls():
            fn = t.get('fn')
            if not fn:
                continue
            n = canon(fn['path'])
            if n in PTR_READ + PTR_WRITE + PTR_COPY or n in ('std::ptr::swap', 'std::ptr::replace', 'std::ptr::write_bytes', 'std::ptr::copy'):
                ctx.oblige(1, sample='%s: %s::<%s>' % (key, n, ','.join(fn['args'])))
                ctx.instance('%s %s' % (key, n))
                if n not in ('std::ptr::read', 'std::ptr::write', 'std::ptr::copy_nonoverlapping'):
                    ctx.violate(key, None, 'unrecognised raw memory operation %s' % n, at=t.get('at'), sig='rawop:' + n)
                    continue
                if n == 'std::ptr::read' and fn['args'][:1] and 'Arc<' in fn['args'][0] and 'ChannelInternal' in fn['args'][0] and (
                        key in BYVAL_CONV or (fam.owners(ctx, key) and fam.owners(ctx, key) <= set(BYVAL_CONV))):
                    continue  # a by-value conversion moving its Arc out of self: not a payload copy; L4 decides whether it is right
                if fn['args'][:1] != ['T']:
                    ctx.violate(key, None, '%s instantiated at %s instead of the payload type T' % (n, fn['args']), at=t.get('at'), sig='rawop-type')
                if n == 'std::ptr::copy_nonoverlapping':
                    cnt = t['args'][-1]
                    if not (cnt.get('k') == 'const' and cnt.get('val') == '1'):
                        ctx.violate(key, None, 'copy_nonoverlapping count is not the constant 1', at=t.get('at'), sig='rawop-count')


def has_call(v, name, depth=0):
    if not isinstance(v, tuple) or depth > 30:
        return False
    if v and v[0] == 'call' and v[2] == name:
        return True
    return any(has_call(x, name, depth + 1) for x in v if isinstance(x, tuple))


@rule('P5', ['C04', 'C01', 'C07'], 'direction of the raw copies: store_as_kanal_ptr copies FROM its argument INTO the local cell; KanalPtr::copy copies FROM its argument INTO the stored address; returned cell is the one written')
def p5(ctx):
    b = ctx.body('pointer::store_as_kanal_ptr')
    if b is None:
        ctx.violate('pointer::store_as_kanal_ptr', None, 'anchor missing', sig='anchor')
    else:
        ctx.instance(b.key)
        for p, evs in ret_paths(ctx, b):
            cps = [e for e in p.events if e.kind == 'call' and e.name in PTR_COPY]
            for c in cps:
                ctx.oblige(1, sample='store_as_kanal_ptr: copy(%s -> %s)' % (fmt(c.args[-3]), fmt(c.args[-2])))
                src, dst = c.args[-3], c.args[-2]
                if src != ('param', 1):
                    ctx.violate(b.key, p, 'store_as_kanal_ptr does not copy from its argument: %s' % fmt(src), at=c.at)
                ok_dst = has_call(dst, 'std::mem::MaybeUninit::as_mut_ptr') and not contains(dst, ('param', 1))
                if not ok_dst:
                    ctx.violate(b.key, p, 'store_as_kanal_ptr does not copy into its own local cell: %s' % fmt(dst), at=c.at)
            r = p.ret
            if not (r is not None and r[0] == 'call' and r[2] == 'std::mem::MaybeUninit::uninit'):
                ctx.violate(b.key, p, 'store_as_kanal_ptr does not return the cell it filled: %s' % fmt(r))
    b = ctx.body(PK + 'copy')
    if b is not None:
        ctx.instance(b.key)
        for p, evs in ret_paths(ctx, b):
            for c in [e for e in p.events if e.kind == 'call' and e.name in PTR_COPY]:
                ctx.oblige(1)
                src, dst = c.args[-3], c.args[-2]
                into_cell = has_call(dst, 'std::cell::UnsafeCell::get') and not has_call(dst, 'std::mem::MaybeUninit::assume_init') \
                    and contains(dst, ('param', 1)) and branch(evs)[0] == 'F'
                if src == ('param', 2) and into_cell:
                    continue  # small T: from the argument straight into this pointer's own cell
                if src != ('param', 2) or not has_call(dst, 'std::mem::MaybeUninit::assume_init'):
                    ctx.violate(b.key, p, 'KanalPtr::copy does not copy from its argument into the stored address', at=c.at)
    b = ctx.body(PK + 'write')
    if b is not None:
        ctx.instance(b.key)
        for p, evs in ret_paths(ctx, b):
            for c in [e for e in p.events if e.kind == 'call' and e.name == 'pointer::store_as_kanal_ptr']:
                ctx.oblige(1)
                a = c.args[0]
                # `&*ManuallyDrop::new(d)`: the same value, wrapped so that it is not dropped here
                md = a[0] == 'call' and a[2] in ('std::ops::Deref::deref', 'std::ops::DerefMut::deref_mut') and a[3] and a[3][0][0] in ('ref', 'rawptr') \
                    and len(a[3][0]) > 2 and a[3][0][2] is not None and a[3][0][2][0] == 'call' and a[3][0][2][2] == 'std::mem::ManuallyDrop::new' \
                    and a[3][0][2][3] == (('param', 2),)
                if not md and not (a[0] in ('ref', 'rawptr') and a[1] == ('local', 2)):
                    ctx.violate(b.key, p, 'KanalPtr::write encodes something other than its argument', at=c.at)
            for w in [e for e in p.events if e.kind == 'wr' and e.place[0] == 'deref' and cell_get(e.place[1])]:
                if not (w.val[0] == 'call' and w.val[2] == 'pointer::store_as_kanal_ptr'):
                    ctx.violate(b.key, p, 'KanalPtr::write stores something other than the encoded argument into the cell', at=w.at)
    b = ctx.body(PK + 'read')
    if b is not None:
        ctx.instance(b.key)
        for p, evs in ret_paths(ctx, b):
            ctx.oblige(1)
            r = p.ret
            if r is None or r[0] != 'call' or r[2] not in PTR_READ + ('std::mem::zeroed',):
                ctx.violate(b.key, p, 'KanalPtr::read does not return what it read: %s' % fmt(r))
            elif r[2] in PTR_READ and not contains(r[3], ('param', 1)):
                ctx.violate(b.key, p, 'KanalPtr::read reads from something other than this cell')


@rule('P4', ['C05', 'C04'], 'ownership of the bit copy: the source is forgotten after its bits were copied; read never forgets')
def p4(ctx):
    b = ctx.body(PK + 'write')
    if b is not None:
        ctx.instance(b.key)
        for p, evs in ret_paths(ctx, b):
            big, zst = branch(evs)
            fg = [e for e in evs if e.name == 'FORGET']
            ctx.oblige(1, sample='write big=%s: %d forget' % (big, len(fg)))
            moved_in = [e for e in p.events if e.kind == 'call' and e.name == 'std::ptr::write' and e.args and e.args[-1] == ('param', 2)
                        and has_call(e.args[-2], 'std::cell::UnsafeCell::get')]
            if big == 'F' and zst == 'F' and len(moved_in) == 1 and not fg:
                # `ptr::write(cell as *mut T, d)` consumes d: ownership of the bits went into the cell with the write itself
                if any(e.name == 'DROP' and e.data['val'] == ('param', 2) for e in evs):
                    ctx.violate(b.key, p, 'small-T write drops its argument (double drop with the receiver)')
                continue
            if big == 'F':
                if len(fg) != 1 or fg[0].data['val'] != ('param', 2):
                    ctx.violate(b.key, p, 'small-T write must forget its argument exactly once (otherwise the receiver\'s copy is dropped too)')
                bc = [e for e in p.events if e.kind == 'call' and e.name == 'pointer::store_as_kanal_ptr']
                if bc and fg and fg[0].raw.idx < bc[0].idx and fg[0].data.get('how') != 'ManuallyDrop':
                    ctx.violate(b.key, p, 'argument forgotten before its bits were copied')
                if any(e.name == 'DROP' and e.data['val'] == ('param', 2) for e in evs):
                    ctx.violate(b.key, p, 'small-T write drops its argument (double drop with the receiver)')
            if big == 'T':
                pw = [e for e in p.events if e.kind == 'call' and e.name == 'std::ptr::write']
                pc = [e for e in p.events if e.kind == 'call' and e.name in PTR_COPY]
                moved = len(pw) == 1 and pw[0].args[-1] == ('param', 2)
                copied = not pw and len(pc) == 1 and pc[0].args[-3][0] in ('ref', 'rawptr') and pc[0].args[-3][1] in (('local', 2), ('local', 2, 0)) \
                    and len(fg) == 1 and fg[0].data['val'] == ('param', 2) and fg[0].raw.idx > pc[0].idx
                if not (moved or copied):
                    ctx.violate(b.key, p, 'large-T write does not move its argument into the destination')
                if any(e.name == 'DROP' and e.data['val'] == ('param', 2) for e in evs):
                    ctx.violate(b.key, p, 'large-T write drops its argument after writing it')
    if ctx.has_async():
        b = ctx.body(PK + 'new_owned')
        if b is not None:
            ctx.instance(b.key)
            for p, evs in ret_paths(ctx, b):
                fg = [e for e in evs if e.name == 'FORGET']
                ctx.oblige(1)
                mv = [e for e in p.events if e.kind == 'call' and e.name == 'std::ptr::write' and e.args and e.args[-1] == ('param', 1)
                      and has_call(e.args[-2], 'std::cell::UnsafeCell::get')]
                if len(mv) == 1 and not fg and not any(e.name == 'DROP' and e.data['val'] == ('param', 1) for e in evs):
                    continue  # moved into the cell by ptr::write
                if len(fg) != 1 or fg[0].data['val'] != ('param', 1):
                    ctx.violate(b.key, p, 'new_owned must forget the value whose bits it copied')
                if any(e.name == 'DROP' and e.data['val'] == ('param', 1) for e in evs):
                    ctx.violate(b.key, p, 'new_owned drops the value it encoded')
    b = ctx.body(PK + 'read')
    if b is not None:
        ctx.instance(b.key)
        for p, evs in ret_paths(ctx, b):
            ctx.oblige(1)
            if any(e.name in ('FORGET', 'DROP', 'MEMDROP') for e in evs):
                ctx.violate(b.key, p, 'read forgets or drops')
