"""Authoritative rule -> property mapping.

A rule is listed under a property when the mechanism it checks is a NECESSARY condition of that property: breaking the
rule breaks the behaviour the property states on some input / schedule (argument per rule in DESIGN.md section 3).
C03 and C18 compare against a reference channel (atomic, resp. sequential): every rule that pins down the transition an
operation performs in its critical section is necessary for them too.  C09 states that all guarantees carry over to mixed
flavours: the rules about the async flavour's own waiting mechanism (futures, waker) and about wake are necessary for it.
C06 (progress) also rests on S3 and I0: a value buffered past a waiting receiver (S3), or any section that leaves receivers
waiting next to a non-empty buffer / senders waiting next to free room (I0: I2, I4), is a blocked operation that does not
complete although it can; the completeness clause of drain_into (R9, and its conformance I1d) is the same statement for the
bulk receive: a drain that leaves available blocked senders behind is a receive that arrived without completing them.  C10 also rests on F7: a stream item that does not come from a poll of the inner future on that
very call was taken from the channel earlier and kept where close() cannot reach it, so it is delivered after close.
C06 and C13 also rest on G1: G6 reads `wait()`'s failed LOCKED -> LOCKED_STARVATION exchange as "the state is final", which holds only
while nobody but `wait` makes that transition (a timed wait that parks and leaves LOCKED_STARVATION behind turns the fallback
`wait()` of a timed operation into a false "closed": seeded C11-r16b, C13-r19b)."""

TRANSITION = ['S1', 'S3', 'S4', 'S5', 'S6', 'R1', 'R2', 'R3', 'R5', 'R6', 'R7', 'R9', 'L1', 'L2', 'L5', 'H2', 'H3', 'H4',
              'H6', 'H8', 'O1', 'S0', 'R0']

PROPS = {
    'C01': ['L6', 'S0', 'R0', 'S2', 'S4', 'S5', 'S6', 'R4', 'R6', 'R7', 'R9', 'R3', 'H2', 'H3', 'H4', 'H6', 'H7', 'G3', 'F2', 'F5', 'F6', 'L5', 'P4', 'Q1', 'S8', 'R10', 'S7', 'R8', 'G6', 'G8', 'P1', 'P2', 'P3', 'F3', 'H5', 'L1', 'F7', 'F1', 'F4', 'F8', 'I0', 'I1s', 'I1r', 'I1d', 'P5', 'L7'],
    'C02': ['L6', 'S0', 'R0', 'Q1', 'R2', 'R3', 'S3', 'S4', 'R6', 'H2', 'H3', 'H4', 'R9', 'F2', 'F3', 'F6', 'S10', 'R10', 'F7', 'I0', 'I1s', 'I1r', 'I1d'],
    'C03': ['W1', 'S10', 'R10', 'M6', 'H1', 'M1', 'M2', 'S2', 'R4', 'S1', 'S3', 'S4', 'S5', 'S6', 'R1', 'R2', 'R3', 'R5', 'R6', 'R7', 'R9', 'L1', 'L2', 'L5', 'H2', 'H3', 'H4', 'H6', 'H8', 'O1', 'S0', 'R0', 'P1', 'P2', 'P3', 'P4', 'G3', 'G6', 'G8', 'F2', 'F5', 'S7', 'R8', 'S8', 'I0', 'I1s', 'I1r', 'I1d', 'I1c', 'I1h', 'P5'],
    'C04': ['P1', 'P2', 'P3', 'P4', 'G2', 'G3', 'F5', 'F2', 'R7', 'R6', 'S4', 'G6', 'H4', 'S8', 'R10', 'S7', 'R8', 'G1', 'G4', 'G8', 'F3', 'H6', 'S6', 'P5', 'F6'],
    'C05': ['S0', 'S6', 'F2', 'F5', 'F6', 'P4', 'L5', 'R7', 'R9', 'R3', 'G6', 'G3', 'S5', 'H4', 'G8', 'F3', 'H6', 'L1', 'S2', 'R4', 'F7', 'F1', 'F8', 'P2', 'I1c', 'L7'],
    'C06': ['L6', 'W1', 'G5', 'G6', 'G2', 'R3', 'R4', 'S2', 'L1', 'L5', 'H6', 'H2', 'S4', 'R6', 'F1', 'F2', 'F3', 'H5', 'M4', 'M5', 'G3', 'L2', 'L3', 'L4', 'G8', 'F7', 'I6', 'I1h', 'H4', 'H3', 'S8', 'R10', 'S7', 'R8', 'L7', 'M7', 'S3', 'I0', 'R9', 'I1d', 'G1'],
    'C07': ['G1', 'G2', 'G4', 'G6', 'G7', 'S8', 'R10', 'S2', 'R4', 'R7', 'F3', 'F5', 'F6', 'H4', 'H5', 'H7', 'T5', 'S7', 'R8', 'G3', 'G8', 'P1', 'P2', 'P3', 'H6', 'H2', 'P5', 'T6'],
    'C08': ['S0', 'S3', 'S4', 'S5', 'R2', 'R3', 'H8', 'L6', 'L3', 'O1', 'Q1', 'R6', 'F2', 'S10', 'R10', 'F6', 'S7', 'R8', 'I0', 'I1s', 'I1r'],
    'C09': ['L4', 'L2', 'L1', 'L5', 'G5', 'G7', 'G2', 'G3', 'G6', 'S0', 'R0', 'S1', 'S2', 'S3', 'S4', 'S5', 'S6', 'R1', 'R2', 'R3', 'R4', 'R5', 'R6', 'R7', 'F1', 'F2', 'F3', 'F6', 'H5', 'O1', 'G8', 'P1', 'P2', 'F7', 'F4', 'F5', 'F8', 'I0', 'I1s', 'I1r', 'I1h', 'L7', 'H4', 'Q1'],
    'C10': ['L5', 'S1', 'R1', 'H6', 'L6', 'L1', 'L2', 'O1', 'S6', 'G3', 'G5', 'G6', 'F2', 'F6', 'G8', 'I6', 'I1s', 'I1r', 'I1c', 'I1h', 'S5', 'R7', 'S8', 'R10', 'F7'],
    'C11': ['L1', 'L2', 'R5', 'S1', 'S6', 'L6', 'H6', 'O1', 'G3', 'G5', 'G6', 'F2', 'F6', 'L3', 'L4', 'G8', 'I6', 'I1s', 'I1r', 'I1h', 'S5', 'R7', 'S8', 'R10', 'F9', 'L7', 'F7'],
    'C12': ['L1', 'L2', 'L3', 'L4', 'L5', 'L6', 'H8', 'O1', 'I1c', 'I1h', 'L7'],
    'C13': ['S7', 'R8', 'S6', 'S8', 'R10', 'S10', 'G6', 'H4', 'S5', 'R7', 'G3', 'S4', 'R6', 'G8', 'I1s', 'I1r', 'G1'],
    'C14': ['W1', 'S9', 'M3', 'H1', 'S5', 'R7', 'R9', 'S1', 'R1', 'S3', 'I1s', 'I1r', 'I1d'],
    'C15': ['F6', 'H4', 'S10', 'R10', 'F1', 'F2', 'F5', 'T5', 'G6', 'F8', 'G8', 'P2', 'P4', 'F3', 'T6'],
    'C16': ['F1', 'F2', 'F3', 'F4', 'F5', 'F6', 'F7', 'G6', 'R6', 'S4', 'H5', 'G5', 'G8', 'F8', 'P2', 'F9', 'H4'],
    'C17': ['W1', 'M1', 'M2', 'M3', 'M4', 'M5', 'M6', 'H1', 'M7'],
    'C18': ['S1', 'S3', 'S4', 'S5', 'S6', 'R1', 'R2', 'R3', 'R5', 'R6', 'R7', 'R9', 'L1', 'L2', 'L5', 'H2', 'H3', 'H4', 'H6', 'H8', 'O1', 'S0', 'R0', 'O2', 'S2', 'R4', 'S7', 'R8', 'S9', 'F1', 'F2', 'F3', 'F4', 'F5', 'F6', 'F7', 'L3', 'L4', 'L6', 'H5', 'H7', 'Q1', 'F8', 'G8', 'P1', 'P2', 'P3', 'P4', 'G3', 'G6', 'I0', 'I1s', 'I1r', 'I1d', 'I1c', 'I1h', 'P5', 'F9', 'L7'],
    'C19': ['R0', 'R9', 'S9', 'R4', 'G3', 'Q1', 'R1', 'R2', 'H2', 'F2', 'F3', 'H3', 'H4', 'S4', 'L6', 'I0', 'I1d'],
    'C20': ['T1', 'T2', 'T3', 'T4'],
}


def apply(rules):
    """overwrite RuleDef.props from the table; every rule must serve at least one property"""
    by_rule = {}
    for p, rs in PROPS.items():
        for r in rs:
            by_rule.setdefault(r, []).append(p)
    for rid, rd in rules.items():
        rd.props = sorted(by_rule.get(rid, []))
    missing = [r for r in by_rule if r not in rules]
    return missing
