"""G rules: the signal protocol in signal.rs.  DESIGN.md §3.6."""
from engine import rule
from mir import private_helper as mir_private_helper
import fam
import diag
import sem
from sem import labels, has, contains
from mir import fmt, canon, is_const, atomic_method, ATOMIC_READ_METHODS, ATOMIC_WRITE_METHODS, is_state_read

SIGK = 'signal::Signal::<T>::'
ACQ = ('Acquire', 'AcqRel', 'SeqCst')
REL = ('Release', 'AcqRel', 'SeqCst')
LOCKED = '2'
LOCKED_STARVATION = '3'
UNLOCKED = '0'
TERMINATED = '1'


def ret_paths(ctx, b, include_panic=False):
    ps = ctx.paths(b)
    if ps is None:
        ctx.violate(b.key, None, 'cannot analyse: path explosion', sig='paths')
        return
    for p in ps:
        if p.end == 'return' or (include_panic and p.end == 'panic'):
            yield p, ctx.sem(p)


def ordering_of(v):
    if v is not None and v[0] == 'agg' and v[1].endswith('Ordering'):
        return v[2]
    return None


def atomic_ops(path, field='state'):
    """atomic operations on a field named `field` along a path"""
    out = []
    for e in path.events:
        if e.kind != 'call':
            continue
        m = atomic_method(e.name)
        if m is None or not e.args:
            continue
        r = e.args[0]
        if r[0] in ('ref', 'rawptr') and r[1][0] == 'pfield' and r[1][2] == field:
            ords = [ordering_of(a) for a in e.args[1:] if ordering_of(a) is not None]
            out.append({'ev': e, 'm': m, 'ords': ords, 'args': e.args[1:], 'base': r[1][1]})
    return out


def fences(path):
    out = []
    for e in path.events:
        if e.kind == 'call' and e.name in ('std::sync::atomic::fence', 'std::sync::atomic::compiler_fence'):
            out.append((e, ordering_of(e.args[0]) if e.args else None, e.name))
    return out


def all_atomic_sites(ctx, field):
    """static scan: (body key, bb, method, at) for atomic method calls whose receiver place ends in .<field>"""
    out = []
    for key, b in ctx.facts.bodies.items():
        # resolve receivers per path (cheap) for bodies that call atomics at all
        if not any(atomic_method(n) for n in b.callee_names()):
            continue
        if field == 'state' and mir_private_helper(b) and key.startswith(SIGK) and fam.owners(ctx, key) and all(o.startswith(SIGK) for o in fam.owners(ctx, key)):
            # a private helper of Signal (`wake_parked`, `finished`, ...) is seen through the functions it is spliced into,
            # with their arguments
            continue
        ps = ctx.paths(b)
        seen = set()
        if ps is None:
            # fall back: name-based scan
            for bb, t in b.all_calls():
                m = atomic_method(canon(t['fn']['path'])) if t.get('fn') else None
                if m:
                    out.append((key, bb, m, t.get('at'), None))
            continue
        for p in ps:
            for op in atomic_ops(p, field):
                k = (op['ev'].bb, op['m'])
                if k not in seen:
                    seen.add(k)
                    out.append((key, op['ev'].bb, op['m'], op['ev'].at, op))
    return out


WAITERS = ('wait', 'wait_timeout', 'async_blocking_wait', 'poll')


def is_park_call(ctx, t, depth=0):
    """std::thread::park, or a loop-free private wrapper around it (`fn park() { std::thread::park() }` in a platform module)"""
    fn = t.get('fn')
    if not fn:
        return False
    if canon(fn['path']) == 'std::thread::park':
        return True
    if fn.get('local') and depth < 3:
        cb = ctx.facts.bodies.get(fn['path'])
        if cb is not None and mir_private_helper(cb) and not cb.has_cycle() and not any(atomic_method(n_) for n_ in cb.callee_names()):
            return any(is_park_call(ctx, t2, depth + 1) for _, t2 in cb.all_calls())
    return False


def infeasible_after_failed_cas(evs):
    """in `wait`: once the CAS LOCKED -> LOCKED_STARVATION has FAILED the state is final (the only other writer is the peer,
    and final states are absorbing), so a later re-read that finds it unfinished does not exist"""
    failed = None
    for e in evs:
        if e.name == 'BR' and e.data['label'] in ('cas', 'res_is_ok', 'res_is_err'):
            o = e.data['outcome']
            if (e.data['label'] == 'cas' and o == 'Err') or (e.data['label'] == 'res_is_ok' and o == 'F') or (e.data['label'] == 'res_is_err' and o == 'T'):
                failed = e.idx
        if failed is not None and e.idx > failed and e.name == 'BR' and e.data['label'] == 'sig_done' and e.data['outcome'] == 'F':
            return True
    return False


def rearm_write(ctx, key, m, op):
    """is this write to Signal.state a store of the constant LOCKED (and nothing else)?"""
    if m == 'store':
        a = op['args'] if op else None
        return bool(a) and is_const(a[0], LOCKED)
    b = ctx.body(key)
    ps = ctx.paths(b) if b is not None else None
    if not ps:
        return False
    n = 0
    for p in ps:
        for e in p.events:
            if e.kind == 'wr' and isinstance(e.place, tuple) and e.place[0] == 'deref' and e.place[1][0] == 'call' and e.place[1][2].endswith('::get_mut'):
                n += 1
                if not is_const(e.val, LOCKED):
                    return False
    return n > 0


@rule('G1', ['C07', 'C01', 'C16'], 'who writes Signal.state: constructors (LOCKED), wait (LOCKED->LOCKED_STARVATION), wake (LOCKED->final / store final)')
def g1(ctx):
    sites = all_atomic_sites(ctx, 'state')
    for key, bb, m, at, op in sites:
        ctx.oblige(1, sample='%s: %s on Signal.state' % (key, m))
        ctx.instance('%s %s' % (key, m))
        if m == 'load':
            continue
        os_ = fam.owners(ctx, key)
        okey = key
        if len(os_) == 1:
            okey = next(iter(os_))
        fn = okey[len(SIGK):] if okey.startswith(SIGK) else None
        if fn == 'wait' and m in ('compare_exchange', 'compare_exchange_weak'):
            a = op['args']
            if not (is_const(a[0], LOCKED) and is_const(a[1], LOCKED_STARVATION)):
                ctx.violate(key, None, 'wait changes the state other than LOCKED -> LOCKED_STARVATION', at=at, sig='wait-cas')
            continue
        if fn == 'wake' and m in ('compare_exchange', 'store'):
            a = op['args']
            if m == 'compare_exchange':
                if not (is_const(a[0], LOCKED) and a[1] == ('param', 2)):
                    ctx.violate(key, None, 'wake CAS is not LOCKED -> requested final state', at=at, sig='wake-cas')
            else:
                if a[0] != ('param', 2):
                    ctx.violate(key, None, 'wake stores something other than the requested final state', at=at, sig='wake-store')
            continue
        if m in ('store', 'get_mut') and os_ and os_ <= {fam.RECV_POLL} and rearm_write(ctx, key, m, op):
            # the stream's future putting its own finished signal back to LOCKED before it registers again; F5 checks
            # where on the poll paths this may happen
            continue
        ctx.violate(key, None, 'Signal.state is written (%s) outside wait/wake' % m, at=at, sig='state-writer:' + m)
    # direct (non-atomic) assignments / &mut borrows of a `state` field of Signal, and constructors
    for key, b in ctx.facts.bodies.items():
        for blk in b.blocks:
            for s in blk['stmts']:
                if s['k'] == 'assign' and s['rv']['k'] == 'agg' and s['rv'].get('ak') == 'adt' and canon(s['rv']['name']) == 'signal::Signal':
                    ctx.instance('%s constructs Signal' % key)
                    ctx.oblige(1)
                    if not all(o.startswith(SIGK + 'new_') for o in fam.owners(ctx, key)):
                        ctx.violate(key, None, 'Signal constructed outside its new_* constructors', at=s.get('at'), sig='construct')
    for nm in ('new_sync',) + (('new_async', 'new_async_ptr') if ctx.has_async() else ()):
        b = ctx.body(SIGK + nm)
        if b is None:
            ctx.violate(SIGK + nm, None, 'anchor missing', sig='anchor')
            continue
        for p, evs in ret_paths(ctx, b):
            ctx.oblige(1, sample='%s starts LOCKED' % nm)
            r = p.ret
            okc = r is not None and r[0] == 'agg' and r[1] == 'signal::Signal'
            if okc:
                f = dict(zip(r[4], r[3]))
                stv = f.get('state')
                okc = stv is not None and stv[0] == 'call' and atomic_method(stv[2]) == 'new' and is_const(stv[3][0], LOCKED)
            if not okc and r is not None and r[0] == 'call' and r[2] in (canon(SIGK + x) for x in ('new_sync', 'new_async', 'new_async_ptr')) \
                    and r[2] != canon(SIGK + nm):
                okc = True  # written in terms of a sibling constructor, which is checked here in its own right
            if not okc:
                ctx.violate(SIGK + nm, p, 'constructor does not start in state LOCKED: %s' % fmt(r))


@rule('G2', ['C04', 'C07', 'C06'], 'memory orderings on Signal.state: release on publish, acquire before the waiter reads or returns')
def g2(ctx):
    # wake
    b = ctx.body(SIGK + 'wake')
    if b is None:
        ctx.violate(SIGK + 'wake', None, 'anchor missing', sig='anchor')
    else:
        for p, evs in ret_paths(ctx, b):
            for op in atomic_ops(p):
                ctx.oblige(1, sample='wake %s %s' % (op['m'], op['ords']))
                ctx.instance('wake %s' % op['m'])
                if op['m'] in ('compare_exchange', 'compare_exchange_weak'):
                    if len(op['ords']) != 2 or op['ords'][0] not in REL:
                        ctx.violate(b.key, p, 'wake: CAS success ordering %s does not release the payload write' % op['ords'][:1], at=op['ev'].at, sig='wake-cas-success')
                    if len(op['ords']) != 2 or op['ords'][1] not in ACQ:
                        ctx.violate(b.key, p, 'wake: CAS failure ordering %s does not acquire the parked thread handle' % op['ords'][1:], at=op['ev'].at, sig='wake-cas-failure')
                elif op['m'] in ('store', 'swap'):
                    if not op['ords'] or op['ords'][0] not in REL:
                        ctx.violate(b.key, p, 'wake: final store ordering %s does not release the payload write' % op['ords'], at=op['ev'].at, sig='wake-store-ordering')
    # waiter side
    for nm in WAITERS:
        if nm in ('async_blocking_wait', 'poll') and not ctx.has_async():
            continue
        b = ctx.body(SIGK + nm)
        if b is None:
            ctx.violate(SIGK + nm, None, 'anchor missing', sig='anchor')
            continue
        for p, evs in ret_paths(ctx, b):
            if infeasible_after_failed_cas(evs):
                continue
            ops = atomic_ops(p)
            if not ops and nm == 'async_blocking_wait' and via_own_poll(p, evs) is not None:
                # the wait is written over `self.poll()` - the same read, fence and test, which G2 / G6 check on `poll` itself: the
                # path ends with poll() == Ready(v) and returns that v
                ctx.oblige(1, sample='%s [%s]: state read through Signal::poll' % (nm, p.signature()[-60:]))
                ctx.instance('%s return path' % nm)
                continue
            if not ops:
                ctx.violate(b.key, p, '%s returns without reading the state' % nm)
                continue
            ctx.oblige(1, sample='%s [%s]: last read %s %s' % (nm, p.signature()[-60:], ops[-1]['m'], ops[-1]['ords']))
            ctx.instance('%s return path' % nm)
            r = p.ret
            if r is not None and r[0] == 'agg' and r[2] == 'Pending':
                continue
            last = ops[-1]
            acquired = False
            if last['m'] == 'load':
                acquired = bool(last['ords']) and last['ords'][0] in ACQ
            elif last['m'] in ('compare_exchange', 'compare_exchange_weak'):
                lb = [e for e in evs if e.name == 'BR' and e.data['label'] == 'cas']
                if lb and lb[-1].data['outcome'] == 'Err':
                    acquired = len(last['ords']) == 2 and last['ords'][1] in ACQ
                else:
                    acquired = len(last['ords']) == 2 and last['ords'][0] in ('AcqRel', 'SeqCst')
            for fe, fo, fname in fences(p):
                if fe.idx > last['ev'].idx and fo in ACQ and fname == 'std::sync::atomic::fence':
                    acquired = True
            if not acquired and nm == 'wait_timeout' and r is not None and r[0] == 'const' and r[1] == 'bool' and r[2] == '0':
                sd = [e for e in evs if e.name == 'BR' and e.data['label'] == 'sig_done' and e.raw.idx > last['ev'].idx]
                if sd and sd[-1].data['outcome'] == 'F':
                    acquired = True  # "not finished yet" at the deadline: nothing was published, there is nothing to order; the caller cancels or waits on
            if not acquired:
                ctx.violate(b.key, p, '%s returns after a state read (%s %s) with neither acquire ordering nor a later acquire fence: the payload / waker written by the peer is not ordered before the return' % (
                    nm, last['m'], last['ords']), at=last['ev'].at, sig='waiter-acquire:' + p.signature()[-40:])
            for op in ops:
                if nm == 'wait' and op['m'] in ('compare_exchange', 'compare_exchange_weak'):
                    if len(op['ords']) != 2 or op['ords'][0] not in REL:
                        ctx.violate(b.key, p, 'wait: CAS success ordering %s does not publish the stored thread handle' % op['ords'][:1], at=op['ev'].at, sig='wait-cas-success')
                    if len(op['ords']) != 2 or op['ords'][1] not in ACQ:
                        ctx.violate(b.key, p, 'wait: CAS failure ordering %s does not acquire the peer\'s write' % op['ords'][1:], at=op['ev'].at, sig='wait-cas-failure')


@rule('G3', ['C04', 'C01'], 'publish order: payload is written/read before wake; send/recv wake with UNLOCKED, terminate with TERMINATED')
def g3(ctx):
    for nm, ptrop, final in (('send', 'pointer::KanalPtr::write', UNLOCKED), ('recv', 'pointer::KanalPtr::read', UNLOCKED), ('terminate', None, TERMINATED)):
        b = ctx.body(SIGK + nm)
        this = ('param', 1)
        if b is None:
            # the body may have been merged into its only caller, the terminator method that consumes the capability
            b = ctx.body('signal::SignalTerminator::<T>::' + nm)
            this = ('field', ('param', 1), '0')
            if b is None or not any(n == 'signal::Signal::wake' for n in b.callee_names()):
                ctx.violate(SIGK + nm, None, 'anchor missing', sig='anchor')
                continue
        ctx.instance(SIGK + nm)
        for p, evs in ret_paths(ctx, b):
            ctx.oblige(1, sample='Signal::%s: %s then wake(%s)' % (nm, ptrop, final))
            calls = [e for e in p.events if e.kind == 'call']
            wakes = [e for e in calls if e.name == 'signal::Signal::wake']
            if len(wakes) != 1:
                ctx.violate(b.key, p, 'Signal::%s wakes %d times' % (nm, len(wakes)))
                continue
            w = wakes[0]
            if this != ('param', 1) and w.args[0][0] == 'load' and w.args[0][1] == ('pfield', ('deref', ('param', 1)), '0'):
                this = w.args[0]  # `&self` terminator: the pointer is loaded from self.0
            if w.args[0] != this or not is_const(w.args[1], final):
                ctx.violate(b.key, p, 'Signal::%s wakes with the wrong signal or final state: %s' % (nm, fmt(w.args[1])), at=w.at)
            if ptrop:
                po = [e for e in calls if e.name == ptrop]
                via_helper = False
                if nm == 'recv' and not po:
                    # `let d = (*this).assume_init(); wake; d`: the read through the sibling helper, which G8 pins to `self.ptr.read()`
                    po = [e for e in calls if e.name == 'signal::Signal::assume_init' and e.args and (
                        e.args[0] == this or (e.args[0][0] in ('ref', 'rawptr') and e.args[0][1] == ('deref', this)))]
                    via_helper = bool(po)
                if len(po) != 1:
                    ctx.violate(b.key, p, 'Signal::%s performs %d payload transfers' % (nm, len(po)))
                    continue
                if po[0].idx > w.idx:
                    ctx.violate(b.key, p, 'Signal::%s publishes (wake) before the payload transfer' % nm, at=w.at)
                recv = po[0].args[0]
                if not via_helper and not (recv[0] in ('ref', 'rawptr') and recv[1] == ('pfield', ('deref', this), 'ptr')):
                    ctx.violate(b.key, p, 'Signal::%s transfers through something other than this signal\'s ptr' % nm, at=po[0].at)
                if nm == 'send' and (len(po[0].args) < 2 or po[0].args[1] != ('param', 2)):
                    ctx.violate(b.key, p, 'Signal::send does not write its argument', at=po[0].at)
                if nm == 'recv' and p.ret != po[0].val:
                    ctx.violate(b.key, p, 'Signal::recv does not return what it read')
            others = [e for e in calls if e.name not in ('signal::Signal::wake', ptrop)]
            if ptrop and nm == 'recv':
                others = [e for e in others if not (e.name == 'signal::Signal::assume_init' and e.idx < w.idx)]
            for o in others:
                if o.idx > w.idx and contains(o.args, this):
                    ctx.violate(b.key, p, 'Signal::%s touches the signal after wake (%s)' % (nm, o.name), at=o.at)


def tainted(v, depth=0):
    """derived from *this by reference (not an owned clone)"""
    if not isinstance(v, tuple) or depth > 40:
        return False
    if v == ('param', 1):
        return True
    if v and v[0] == 'call' and v[2] in ('std::clone::Clone::clone', 'std::option::Option::take', 'std::mem::take', 'std::mem::replace'):
        # an owned value: a clone, or what was MOVED OUT of the signal (`(*cell).take()`): it no longer lives in the signal's memory
        return False
    if v and v[0] in ('ref', 'rawptr') and len(v) > 2:
        # a reference to a local: tainted iff the local's value is
        if v[1][0] == 'local':
            return tainted(v[2], depth + 1) if v[2] is not None else False
        return tainted(v[1], depth + 1)
    return any(tainted(x, depth + 1) for x in v if isinstance(x, tuple))


@rule('G4', ['C07'], 'wake never touches the signal after the terminal state write; handle/waker are cloned before it')
def g4(ctx):
    b = ctx.body(SIGK + 'wake')
    if b is None:
        ctx.violate(SIGK + 'wake', None, 'anchor missing', sig='anchor')
        return
    ctx.instance(b.key)
    for p, evs in ret_paths(ctx, b):
        ops = [o for o in atomic_ops(p) if o['m'] in ATOMIC_WRITE_METHODS]
        if not ops:
            continue
        ctx.oblige(1, sample='wake [%s]: nothing derived from *this after the terminal write' % p.signature())
        # terminal write: the last store, or the CAS when it succeeded
        term = None
        for o in ops:
            if o['m'] == 'store':
                term = o
        if term is None:
            term = ops[-1]
        ti = term['ev'].idx
        for e in p.events:
            if e.idx <= ti:
                continue
            if e.kind == 'call':
                if e.name in ('std::result::Result::is_err', 'std::result::Result::is_ok'):
                    continue  # inspects the CAS result (a local value)
                if any(tainted(a) for a in e.args):
                    ctx.violate(b.key, p, 'wake uses the signal (%s) after the terminal state write: the waiter may already have returned and freed it' % e.name, at=e.at, sig='touch-after-release:' + e.name.split('::')[-1])
            elif e.kind in ('rd', 'wr'):
                if tainted(e.place):
                    ctx.violate(b.key, p, 'wake reads/writes the signal\'s memory after the terminal state write', at=e.at, sig='touch-after-release:mem')
            elif e.kind == 'drop':
                if tainted(e.place):
                    ctx.violate(b.key, p, 'wake drops part of the signal after the terminal state write', at=e.at, sig='touch-after-release:drop')


@rule('G5', ['C06', 'C09'], 'wake completeness: every arm performs the terminal write and wakes the waiter the way its own kind requires')
def g5(ctx):
    b = ctx.body(SIGK + 'wake')
    if b is None:
        ctx.violate(SIGK + 'wake', None, 'anchor missing', sig='anchor')
        return
    ctx.instance(b.key)
    kinds_seen = set()
    variants = None
    for p, evs in ret_paths(ctx, b, include_panic=True):
        wk = [e for e in evs if e.name == 'BR' and e.data['label'] == 'wakerkind']
        adt = ctx.facts.adts.get('signal::KanalWaker')
        adt_variants = [v['name'] for v in adt['variants']] if adt else []
        if not wk:
            if len(adt_variants) == 1:
                # a single-variant enum needs no discriminant test (configuration without async)
                variants = adt_variants
                kind = adt_variants[0]
            else:
                ctx.violate(b.key, p, 'wake does not dispatch on the waiter\'s own waker kind')
                continue
        else:
            d = wk[0].data['val']
            if d[0] == 'discr':
                variants = [vn for vn, _ in d[2]]
                pl = d[1]
                if not (pl[0] == 'load' and pl[1] == ('pfield', ('deref', ('param', 1)), 'waker')):
                    ctx.violate(b.key, p, 'wake dispatches on something other than (*this).waker')
            kind = wk[0].data['outcome']
        kinds_seen.add(kind)
        if p.end == 'panic':
            if kind != 'None':
                ctx.violate(b.key, p, 'wake panics for a %s waiter' % kind)
            continue
        ctx.oblige(1, sample='wake arm %s [%s]' % (kind, p.signature()))
        ops = atomic_ops(p)
        writes = [o for o in ops if o['m'] in ('store', 'compare_exchange', 'compare_exchange_weak', 'swap')]
        calls = [e for e in p.events if e.kind == 'call']
        if kind == 'Sync':
            cas = [o for o in writes if o['m'].startswith('compare_exchange')]
            st = [o for o in writes if o['m'] == 'store']
            lb = labels(evs)
            failed = has(lb, 'res_is_err', 'T') or has(lb, 'res_is_ok', 'F') or has(lb, 'cas', 'Err')
            if not cas:
                ctx.violate(b.key, p, 'Sync arm has no LOCKED->final CAS (cannot tell whether the waiter is parked)')
            if failed:
                if len(st) != 1:
                    ctx.violate(b.key, p, 'Sync arm, CAS failed (waiter is about to park): final state is stored %d times' % len(st))
                unp = [e for e in calls if e.name == 'std::thread::Thread::unpark']
                if len(unp) != 1:
                    ctx.violate(b.key, p, 'Sync arm, CAS failed (waiter parked): thread is not unparked (lost wake-up)')
                elif st and unp[0].idx < st[0]['ev'].idx:
                    ctx.violate(b.key, p, 'Sync arm unparks before the final state is stored (the waiter re-parks for ever)', at=unp[0].at)
            else:
                if st:
                    ctx.violate(b.key, p, 'Sync arm stores again although the CAS succeeded')
        elif kind == 'Async':
            st = [o for o in writes if o['m'] == 'store']
            if len(st) != 1:
                ctx.violate(b.key, p, 'Async arm stores the final state %d times' % len(st))
            wk_calls = [e for e in calls if e.name in ('std::task::Waker::wake', 'std::task::Waker::wake_by_ref')]
            if len(wk_calls) != 1:
                ctx.violate(b.key, p, 'Async arm does not wake the task waker (lost wake-up)')
            elif st and wk_calls[0].idx < st[0]['ev'].idx:
                ctx.violate(b.key, p, 'Async arm wakes before the final state is stored (the task polls, sees LOCKED and sleeps for ever)', at=wk_calls[0].at)
        else:
            ctx.violate(b.key, p, 'wake returns normally for waker kind %s' % kind)
    if variants is not None:
        missing = [v for v in variants if v not in kinds_seen]
        if missing:
            ctx.violate(b.key, None, 'wake has no arm for waker kind(s) %s' % missing, sig='arms')
        need = {'Sync'} | ({'Async'} if ctx.has_async() else set())
        if not need <= set(variants):
            ctx.violate(b.key, None, 'KanalWaker lacks variant(s) %s' % sorted(need - set(variants)), sig='variants')


def via_own_poll(p, evs):
    """`if let Poll::Ready(v) = self.poll() { return v }`: the path's LAST question to the state is a call of Signal::poll on this very
    signal that answered Ready, no atomic operation of its own follows, and the value returned is the payload of that answer.
    Returns that payload value, or None."""
    polls = [e for e in p.events if e.kind == 'call' and e.name == SIGK.replace('::<T>', '') + 'poll']
    if not polls:
        return None
    last = polls[-1]
    if not (last.args and last.args[0] == ('param', 1)):
        return None
    br = [e for e in evs if e.name == 'BR' and e.data['label'] == 'sigpoll' and contains(e.data['val'], last.val)]
    if not br or br[-1].data['outcome'] != 'Ready':
        return None
    pay = ('field', ('downcast', last.val, 'Ready'), '0')
    if p.ret != pay:
        return None
    return pay


@rule('G6', ['C06', 'C07', 'C13', 'C16'], 'wait shapes: success only on UNLOCKED; blocking waits return only after state<LOCKED; park re-checks; wait_timeout fails only at the deadline')
def g6(ctx):
    for nm in WAITERS:
        if nm in ('async_blocking_wait', 'poll') and not ctx.has_async():
            continue
        b = ctx.body(SIGK + nm)
        if b is None:
            ctx.violate(SIGK + nm, None, 'anchor missing', sig='anchor')
            continue
        ctx.instance(b.key)
        for p, evs in ret_paths(ctx, b):
            if nm == 'wait' and infeasible_after_failed_cas(evs):
                continue
            ctx.oblige(1, sample='%s [%s] -> %s' % (nm, p.signature()[-50:], fmt(p.ret)))
            r = p.ret
            core = r
            if nm == 'async_blocking_wait' and not atomic_ops(p) and via_own_poll(p, evs) is not None:
                continue  # returns what `self.poll()` answered with Ready: final state, `v == UNLOCKED` - by G6 on poll
            if nm == 'poll':
                if r is not None and r[0] == 'agg' and r[2] == 'Pending':
                    # Pending only when the state is still >= LOCKED
                    lb = [e for e in evs if e.name == 'BR' and e.data['label'] == 'sig_done']
                    if not lb or lb[-1].data['outcome'] != 'F':
                        ctx.violate(b.key, p, 'poll returns Pending without having observed state>=LOCKED')
                    continue
                if r is not None and r[0] == 'agg' and r[2] == 'Ready':
                    core = r[3][0]
                else:
                    ctx.violate(b.key, p, 'poll returns neither Ready nor Pending: %s' % fmt(r))
                    continue
            # success only on v == UNLOCKED where v is a state read
            okshape = False
            if core is not None and core[0] == 'bin' and core[1] == 'Eq':
                a, c = core[2], core[3]
                if is_state_read(a) and is_const(c, UNLOCKED):
                    okshape = True
                if is_state_read(c) and is_const(a, UNLOCKED):
                    okshape = True
            if core is not None and core[0] == 'const' and core[1] == 'bool' and core[2] == '0':
                okshape = True
            # `match state { UNLOCKED => true, TERMINATED => false, _ => keep waiting }`: the literal `true` on the arm of a switch on
            # the LAST state read that selected UNLOCKED
            ss = [e for e in evs if e.name == 'BR' and e.data['label'] == 'sig_state']
            if core is not None and core[0] == 'const' and core[1] == 'bool' and core[2] == '1' and ss and ss[-1].data['outcome'] == UNLOCKED:
                ops_ = atomic_ops(p)
                if ops_ and ss[-1].data['val'] == ops_[-1]['ev'].val:
                    okshape = True
            if not okshape and nm == 'wait_timeout' and core is not None and core[0] == 'bin' and core[1] == 'Lt' and is_state_read(core[2]) \
                    and is_const(core[3], LOCKED):
                import waitc
                if waitc.contract(ctx.facts) is not None:
                    ops_ = atomic_ops(p)
                    if ops_ and core[2] == ops_[-1]['ev'].val:
                        okshape = True
                        core = ('const', 'bool', '0')   # nothing more to check on this exit: it reports what the last read says
            if not okshape and nm == 'wait_timeout' and core is not None and (
                    (core[0] == 'const' and core[1] == 'bool' and core[2] == '1') or
                    (core[0] == 'agg' and not core[3] and core[1] in ctx.facts.adts_by_canon() and 'Option' not in core[1])):
                # another contract of the timed wait (`true` = any final state; a private three-valued enum): the meaning of each
                # result is READ from the paths (rules/waitc.py) and the callers are held to it; here: the path must carry the
                # evidence for its class, and "delivered" must rest on the last read of the state
                import waitc
                cl = waitc.classify(evs)
                if cl is not None and waitc.contract(ctx.facts) is not None:
                    okshape = True
                    if cl == frozenset('D'):
                        su = [e for e in evs if e.name == 'BR' and e.data['label'] == 'sig_unlocked']
                        ops_ = atomic_ops(p)
                        if not (su and ops_ and contains(su[-1].data['val'], ops_[-1]['ev'].val)):
                            ctx.violate(b.key, p, '%s decides success on a stale read of the state' % nm)
            if not okshape:
                ctx.violate(b.key, p, '%s result is not `state == UNLOCKED` on a value read from the state: %s' % (nm, fmt(core)))
                continue
            if core[0] == 'bin':
                v = core[2] if is_state_read(core[2]) else core[3]
                # the compared value must be the LAST read of the state
                ops = atomic_ops(p)
                lastv = ops[-1]['ev'].val if ops else None
                inner = v
                while inner[0] == 'field':
                    inner = inner[1][1]
                if lastv is None or inner != lastv:
                    ctx.violate(b.key, p, '%s decides success on a stale read of the state' % nm)
            sd = [e for e in evs if e.name == 'BR' and e.data['label'] == 'sig_done']
            if ss and (not sd or ss[-1].idx > sd[-1].idx):
                # the switch on the state stands for the `state < LOCKED` test: final iff it selected UNLOCKED or TERMINATED
                fin = ss[-1].data['outcome'] in (UNLOCKED, TERMINATED)
                notfin = ss[-1].data['outcome'].startswith('other(') and {UNLOCKED, TERMINATED} <= set(ss[-1].data['outcome'][6:-1].split('|'))
                if fin or notfin:
                    sd = sd + [type('E', (), {'data': {'outcome': 'T' if fin else 'F'}, 'idx': ss[-1].idx})()]
            cas = [e for e in evs if e.name == 'BR' and e.data['label'] == 'cas']
            if nm in ('wait', 'async_blocking_wait', 'poll'):
                done = bool(sd) and sd[-1].data['outcome'] == 'T'
                if cas and cas[-1].data['outcome'] == 'Err' and (not sd or cas[-1].idx > sd[-1].idx):
                    done = True  # CAS(LOCKED->..) failed: the state is no longer LOCKED, i.e. final
                if not done:
                    ctx.violate(b.key, p, '%s returns while the state may still be LOCKED (the peer may still be writing into this frame)' % nm)
            if nm == 'wait_timeout':
                done = bool(sd) and sd[-1].data['outcome'] == 'T'
                # `now < until` false, `now >= until` true, `now > until` true, `now <= until` false all mean: expired
                EXP = {('before_deadline', 'F'), ('late_ge', 'T'), ('late', 'T'), ('before_deadline_le', 'F')}
                bd = [e for e in evs if e.name == 'BR' and e.data['label'] in ('before_deadline', 'late_ge', 'late', 'before_deadline_le')]
                # (a last look at the state after the deadline test does not un-expire the deadline)
                expired = bool(bd) and (bd[-1].data['label'], bd[-1].data['outcome']) in EXP
                if not (done or expired):
                    ctx.violate(b.key, p, 'wait_timeout returns before the deadline without a final state')
                if expired:
                    nowv = bd[-1].data['val']
                    if not (contains(nowv, ('param', 2))):
                        ctx.violate(b.key, p, 'wait_timeout compares the clock with something other than its deadline argument')
        if nm == 'wait':
            # park inside a cycle that re-loads the state; thread handle stored before the CAS
            # park may live in `wait` itself or in a private helper it is split into
            cands = [b]
            seenb = {b.key}
            wk = [b]
            while wk:
                cur = wk.pop()
                for bb_, t_ in cur.all_calls():
                    fn_ = t_.get('fn')
                    if fn_ and fn_.get('local'):
                        cb = ctx.facts.bodies.get(fn_['path'])
                        if cb is not None and cb.key not in seenb and fam.is_delegate(ctx.facts, cb.key):
                            seenb.add(cb.key)
                            cands.append(cb)
                            wk.append(cb)
            ctx.oblige(1, sample='wait: park in a loop that re-loads the state')
            nparks = 0
            for pbody in cands:
                if pbody is not b and not pbody.has_cycle() and not any(atomic_method(n_) for n_ in pbody.callee_names()):
                    continue  # a plain wrapper around park(): judged at its call sites
                parks = [bb for bb, t in pbody.all_calls() if is_park_call(ctx, t)]
                nparks += len(parks)
                comps = pbody.sccs()
                for pb in parks:
                    comp = [c for c in comps if pb in c][0]
                    cyc = len(comp) > 1 or pb in pbody.succs(pb)
                    loads = []
                    for bb, t in pbody.all_calls():
                        if bb not in comp or not t.get('fn'):
                            continue
                        nm_ = canon(t['fn']['path'])
                        if atomic_method(nm_) == 'load':
                            loads.append(bb)
                        cb = ctx.facts.bodies.get(t['fn']['path'])
                        if cb is not None and fam.is_delegate(ctx.facts, cb.key) and any(atomic_method(n_) == 'load' for n_ in cb.callee_names()):
                            loads.append(bb)  # the re-load sits in a private helper called from the loop
                    if not cyc or not loads:
                        ctx.violate(b.key, None, 'park() is not inside a loop that re-loads the state: a spurious wake-up returns with the peer still owning the frame', at=pbody.blocks[pb]['term'].get('at'), sig='park-loop')
            if nparks == 0:
                ctx.violate(b.key, None, 'wait never parks (anchor missing)', sig='no-park')
            for p, evs in ret_paths(ctx, b):
                ops = atomic_ops(p)
                cas = [o for o in ops if o['m'].startswith('compare_exchange')]
                if cas:
                    ctx.oblige(1)
                    ci = cas[0]['ev'].idx
                    wr = [e for e in p.events if e.kind == 'wr' and e.idx < ci and e.val[0] == 'agg' and e.val[2] == 'Some'
                          and e.val[3] and e.val[3][0][0] == 'call' and e.val[3][0][2] == 'std::thread::current']
                    if not wr:
                        ctx.violate(b.key, p, 'thread handle is not stored before LOCKED_STARVATION is published', at=cas[0]['ev'].at)
                    parked = [e for e in p.events if e.kind == 'call' and e.name == 'std::thread::park']
                    casbr = [e for e in evs if e.name == 'BR' and e.data['label'] == 'cas']
                    if parked and casbr and casbr[0].data['outcome'] != 'Ok':
                        ctx.violate(b.key, p, 'wait parks although its CAS failed (nobody will unpark it)')


@rule('G7', ['C09', 'C07', 'C16'], 'only wake / wait / will_wake look at the waker kind; Signal.waker is written only by constructors, wait and register_waker')
def g7(ctx):
    # the OWNER of a signal may look at the kind of its own waker (a future deciding whether the waker it stored still wakes the
    # task that polls it: `register_waker` with `clone_from`, a `has_waker_of(cx.waker())` helper); what must stay flavour-blind
    # is the PEER side, which reaches the signal through the terminator
    readers_ok = {SIGK + 'wake', SIGK + 'wait', SIGK + 'will_wake', SIGK + 'register_waker', fam.SEND_POLL, fam.RECV_POLL}
    writers_ok = {SIGK + 'new_sync', SIGK + 'new_async', SIGK + 'new_async_ptr', SIGK + 'register_waker', SIGK + 'wait'}
    for key, b in ctx.facts.bodies.items():
        for blk in b.blocks:
            for s in blk['stmts']:
                if s['k'] != 'assign':
                    continue
                rv = s['rv']
                if rv['k'] == 'discr' and 'KanalWaker' in rv['p'].get('ty', ''):
                    ctx.oblige(1)
                    ctx.instance('%s reads waker kind' % key)
                    if not all(o in readers_ok or diag.free_observer(ctx.facts, o) for o in fam.owners(ctx, key)):
                        ctx.violate(key, None, 'waker kind inspected outside wake/wait/will_wake: a peer must not need to know the other side\'s flavour', at=s.get('at'), sig='kind-reader')
                lp = s['lhs']['p']
                if lp and isinstance(lp[-1], dict) and lp[-1].get('f') == 'waker' and 'KanalWaker' in s['lhs'].get('ty', ''):
                    ctx.oblige(1)
                    ctx.instance('%s writes Signal.waker' % key)
                    if not fam.allowed_for(ctx, key, writers_ok):
                        ctx.violate(key, None, 'Signal.waker written outside constructors / wait / register_waker', at=s.get('at'), sig='waker-writer')
    # the Sync cell (UnsafeCell<Option<Thread>>) is written only in wait: UnsafeCell::get users
    for key, b in ctx.facts.bodies.items():
        for bb, t in b.all_calls():
            if t.get('fn') and canon(t['fn']['path']) == 'std::cell::UnsafeCell::get' and any('Thread' in a for a in t['fn']['args']):
                ctx.oblige(1)
                ctx.instance('%s accesses the thread-handle cell' % key)
                if not fam.allowed_for(ctx, key, (SIGK + 'wait', SIGK + 'wake')):
                    ctx.violate(key, None, 'thread-handle cell accessed outside wait/wake', at=t.get('at'), sig='cell-access')


@rule('G8', ['C04', 'C05', 'C06', 'C07', 'C13', 'C16'], 'small signal helpers: is_terminated is `state == TERMINATED`; assume_init / load_and_drop read this signal\'s ptr once; register_waker stores a clone of the given waker; will_wake asks the stored waker; set_ptr stores its argument; constructors pick the matching waker kind')
def g8(ctx):
    def body(nm, need_async=False):
        if need_async and not ctx.has_async():
            return None
        b = ctx.body(SIGK + nm)
        if b is None:
            ctx.violate(SIGK + nm, None, 'anchor missing', sig='anchor')
        return b
    own_ptr = ('pfield', ('deref', ('param', 1)), 'ptr')
    b = body('is_terminated')
    if b is not None:
        ctx.instance(b.key)
        for p, evs in ret_paths(ctx, b):
            ctx.oblige(1, sample='is_terminated -> %s' % fmt(p.ret))
            r = p.ret
            ok = r is not None and r[0] == 'bin' and r[1] == 'Eq' and ((is_state_read(r[2]) and is_const(r[3], TERMINATED)) or (is_state_read(r[3]) and is_const(r[2], TERMINATED)))
            lb_ = labels(evs)
            if not ok and r is not None:
                # decided by a range test first (`v < LOCKED`): then "finished and not UNLOCKED" is TERMINATED, "not finished" is false
                if has(lb_, 'sig_done', 'T') and not has(lb_, 'sig_done', 'F'):
                    inner = r[2] if r[0] == 'un' and r[1] == 'Not' else None
                    if inner is not None and inner[0] == 'bin' and inner[1] == 'Eq' and ((is_state_read(inner[2]) and is_const(inner[3], UNLOCKED)) or (is_state_read(inner[3]) and is_const(inner[2], UNLOCKED))):
                        ok = True
                    if r[0] == 'bin' and r[1] == 'Ne' and ((is_state_read(r[2]) and is_const(r[3], UNLOCKED)) or (is_state_read(r[3]) and is_const(r[2], UNLOCKED))):
                        ok = True
                elif has(lb_, 'sig_done', 'F') and not has(lb_, 'sig_done', 'T') and r[0] == 'const' and r[1] == 'bool' and r[2] == '0':
                    ok = True
            if not ok:
                ctx.violate(b.key, p, 'is_terminated is not `state == TERMINATED` (a still-LOCKED or an UNLOCKED signal would be treated as terminated: the waiter leaves while listed / drops a value the receiver owns): %s' % fmt(r))
            ops = atomic_ops(p)
            if len(ops) != 1 or ops[0]['m'] != 'load' or ops[0]['base'] != ('deref', ('param', 1)):
                ctx.violate(b.key, p, 'is_terminated does not read this signal\'s state exactly once')
    b = body('assume_init')
    if b is not None:
        ctx.instance(b.key)
        for p, evs in ret_paths(ctx, b):
            ctx.oblige(1, sample='assume_init -> %s' % fmt(p.ret))
            r = p.ret
            ok = r is not None and r[0] == 'call' and r[2] == 'pointer::KanalPtr::read' and r[3][0][0] in ('ref', 'rawptr') and r[3][0][1] == own_ptr
            if not ok or len([e for e in p.events if e.kind == 'call']) != 1:
                ctx.violate(b.key, p, 'Signal::assume_init is not exactly `self.ptr.read()`: %s' % fmt(r))
    # (optional: without the helper a future has to spell `_ = self.sig.ptr.read()` out, which the future rules see as such)
    b = ctx.body(SIGK + 'load_and_drop') if ctx.has_async() else None
    if b is None and ctx.has_async():
        ctx.note('%sload_and_drop not present' % SIGK)
    if b is not None:
        ctx.instance(b.key)
        for p, evs in ret_paths(ctx, b):
            ctx.oblige(1, sample='load_and_drop reads ptr once and drops the value')
            reads = [e for e in p.events if e.kind == 'call' and e.name == 'pointer::KanalPtr::read']
            if not reads:
                # `drop(self.assume_init())`: through the sibling helper checked just above
                via = [e for e in p.events if e.kind == 'call' and e.name == 'signal::Signal::assume_init' and e.args and e.args[0] == ('param', 1)]
                if len(via) == 1:
                    reads = via
            if len(reads) != 1 or (reads[0].name == 'pointer::KanalPtr::read' and reads[0].args[0][1] != own_ptr):
                ctx.violate(b.key, p, 'load_and_drop does not read this signal\'s ptr exactly once')
                continue
            drops = [e for e in p.events if e.kind == 'drop' and e.val == reads[0].val]
            md = [e for e in p.events if e.kind == 'call' and e.name == 'std::mem::drop' and e.args and e.args[-1] == reads[0].val]
            if len(drops) + len(md) != 1:
                ctx.violate(b.key, p, 'load_and_drop does not drop the value it read exactly once (%d)' % (len(drops) + len(md)))
            if any(e.kind == 'call' and e.name == 'std::mem::forget' for e in p.events):
                ctx.violate(b.key, p, 'load_and_drop forgets the value')
    b = body('register_waker', True)
    if b is not None:
        ctx.instance(b.key)
        for p, evs in ret_paths(ctx, b):
            ctx.oblige(1, sample='register_waker stores Async(waker.clone())')
            wrs = [e for e in p.events if e.kind == 'wr' and e.place == ('pfield', ('deref', ('param', 1)), 'waker')]
            ok = False
            if len(wrs) == 1:
                v = wrs[0].val
                if v[0] == 'agg' and v[1].endswith('KanalWaker') and v[2] == 'Async' and v[3]:
                    c = v[3][0]
                    ok = c[0] == 'call' and c[2] == 'std::clone::Clone::clone' and c[3][0] == ('param', 2)
            if not ok and not wrs:
                # `match &mut self.waker { Async(w) => w.clone_from(waker), .. }`: Waker::clone_from leaves `*w` a waker that wakes the
                # same task as `waker` (it skips the clone when it already does) - the in-place spelling of the assignment
                cf = [e for e in p.events if e.kind == 'call' and e.name == 'std::clone::Clone::clone_from']
                if len(cf) == 1 and len(cf[0].args) == 2 and cf[0].args[1] == ('param', 2):
                    d0 = cf[0].args[0]
                    pl0 = d0[1] if d0[0] in ('ref', 'rawptr') else None
                    if pl0 is not None and contains(pl0, ('pfield', ('deref', ('param', 1)), 'waker')) and 'Async' in fmt(d0):
                        ok = True
            if not ok:
                ctx.violate(b.key, p, 'register_waker does not store KanalWaker::Async(clone of its argument)')
    b = body('will_wake', True)
    if b is not None:
        ctx.instance(b.key)
        for p, evs in ret_paths(ctx, b):
            ctx.oblige(1, sample='will_wake -> %s' % fmt(p.ret))
            r = p.ret
            ok = r is not None and r[0] == 'call' and r[2] == 'std::task::Waker::will_wake' and len(r[3]) == 2 and r[3][1] == ('param', 2) and contains(r[3][0], ('pfield', ('deref', ('param', 1)), 'waker'))
            if not ok:
                ctx.violate(b.key, p, 'will_wake is not `stored_waker.will_wake(waker)`: %s' % fmt(r))
    b = body('set_ptr', True)
    if b is not None:
        ctx.instance(b.key)
        for p, evs in ret_paths(ctx, b):
            ctx.oblige(1)
            wrs = [e for e in p.events if e.kind == 'wr']
            if len(wrs) != 1 or wrs[0].place != own_ptr or wrs[0].val != ('param', 2):
                ctx.violate(b.key, p, 'set_ptr does not store its argument into this signal\'s ptr')
    for nm, kind, need in (('new_sync', 'Sync', False), ('new_async', 'None', True), ('new_async_ptr', 'None', True)):
        b = body(nm, need)
        if b is None:
            continue
        ctx.instance(b.key)
        for p, evs in ret_paths(ctx, b):
            ctx.oblige(1, sample='%s builds waker kind %s' % (nm, kind))
            r = p.ret
            if not (r is not None and r[0] == 'agg' and r[1] == 'signal::Signal'):
                continue
            f = dict(zip(r[4], r[3]))
            w = f.get('waker')
            if not (w is not None and w[0] == 'agg' and w[2] == kind):
                ctx.violate(b.key, p, '%s does not start with waker kind %s: %s' % (nm, kind, fmt(w)))
            if nm in ('new_sync', 'new_async_ptr') and f.get('ptr') != ('param', 1):
                ctx.violate(b.key, p, '%s does not store the given pointer' % nm)
