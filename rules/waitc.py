"""The contract of `Signal::wait_timeout`, read from its body instead of assumed.

Pinned: `wait_timeout(until) -> bool` answers true iff the hand-over completed (state UNLOCKED); false covers both "terminated" and
"deadline passed", and the callers ask `is_terminated()` to tell them apart.  Two other contracts were written independently by
several contributors: `true` = the signal reached ANY final state before the deadline (the callers ask `is_terminated()` afterwards),
and a three-valued private enum (`Finished / Terminated / Expired`) with the `is_terminated()` question moved inside.

`contract(facts)` classifies every return path of the helper by the evidence on the path (the labels of its own branches):
  D  delivered   - the last test of the state found UNLOCKED
  T  terminated  - a final state that is not UNLOCKED, or `is_terminated()` answered true
  E  expired     - the deadline test failed and the signal is neither
and returns {result key -> set of classes} (keys: 'T' / 'F' for booleans, the variant name for a private fieldless enum), or None when a
path cannot be classified (then nothing is translated and the rules see the shape they do not know).

`translate(body, evs)` rewrites, on the paths of the CALLERS, the branch on the helper's result into the labels of the pinned contract
(`waitOK`, `term`) - as far as the path's own evidence (the result, a later `is_terminated()`) determines them.  A caller that takes
`true` of the second contract for "delivered" without asking gets no `waitOK:T`, and is reported by the send / receive rules as a success
without a successful wait (seeded C03-r17a, C08-r17a, C09-r17a, C13-r17a: exactly that, in `send_option_timeout`)."""
import sem

WT = 'signal::Signal::<T>::wait_timeout'
WT_CALL = 'signal::Signal::wait_timeout'
W_CALL = 'signal::Signal::wait'
PINNED = {'T': frozenset('D'), 'F': frozenset('TE')}
EXPIRED = {('before_deadline', 'F'), ('late_ge', 'T'), ('late', 'T'), ('before_deadline_le', 'F')}


def classify(evs):
    """-> frozenset of classes the path's own evidence allows, or None"""
    brs = [(e.data['label'], e.data['outcome']) for e in evs if e.name == 'BR']
    last = {}
    for i, (l, o) in enumerate(brs):
        last[l] = (i, o)
    su = last.get('sig_unlocked')
    sd = last.get('sig_done')
    tm = last.get('term')
    exp = [i for i, lo in enumerate(brs) if lo in EXPIRED]
    if su and su[1] == 'T' and (not tm or tm[0] < su[0]):
        return frozenset('D')
    if tm and tm[1] == 'T':
        return frozenset('T')
    if su and su[1] == 'F' and sd and sd[1] == 'T' and sd[0] < su[0] and not (exp and exp[-1] > sd[0]):
        return frozenset('T')   # a final state (< LOCKED) that is not UNLOCKED
    if exp and tm and tm[1] == 'F' and (not su or su[1] == 'F'):
        return frozenset('E')
    if sd and sd[1] == 'T' and not (exp and exp[-1] > sd[0]) and (not su or su[0] < sd[0]) and (not tm or tm[0] < sd[0]):
        return frozenset('DT')  # some final state (`state < LOCKED`), not looked at more closely
    if exp and sd and sd[1] == 'F' and sd[0] > exp[-1] and not su and not tm:
        return frozenset('E')   # after the deadline a last look found the state still not final
    return None


def contract(facts):
    c = getattr(facts, '_waitc', 0)
    if c != 0:
        return c
    facts._waitc = None
    b = facts.bodies.get(WT)
    if b is None:
        return None
    try:
        ps = b.paths(1)
    except Exception:
        ps = None
    if not ps:
        return None
    table = {}
    for p in ps:
        if p.end != 'return':
            continue
        r = p.ret
        evs = sem.project_raw(p)
        if r is None:
            return None
        if r[0] == 'const' and r[1] == 'bool':
            key = 'T' if r[2] == '1' else 'F'
            cl = classify(evs)
            if cl is None:
                # the pinned tail `return false` at the deadline without asking is_terminated: terminated or expired
                brs = [(e.data['label'], e.data['outcome']) for e in evs if e.name == 'BR']
                if key == 'F' and any(lo in EXPIRED for lo in brs):
                    table.setdefault(key, set()).update('TE')
                    continue
                return None
            table.setdefault(key, set()).update(cl)
        elif r[0] == 'agg' and not r[3] and r[1] in facts.adts_by_canon() and 'Option' not in r[1]:
            cl = classify(evs)
            if cl is None:
                return None
            table.setdefault(r[2], set()).update(cl)
        elif r[0] == 'bin' and r[1] == 'Eq':
            # `v == UNLOCKED` returned as a value: true = delivered; false = whatever else this exit allows
            brs = [(e.data['label'], e.data['outcome']) for e in evs if e.name == 'BR']
            table.setdefault('T', set()).add('D')
            table.setdefault('F', set()).add('T')
            if any(lo in EXPIRED for lo in brs):
                table['F'].add('E')
        elif r[0] == 'bin' and r[1] == 'Lt' and len(r) > 3 and r[3][0] == 'const' and str(r[3][2]) == '2':
            # `state < LOCKED` returned as a value (read after the deadline): true = some final state, false = still pending = expired
            from mir import is_state_read
            if not is_state_read(r[2]):
                return None
            table.setdefault('T', set()).update('DT')
            table.setdefault('F', set()).add('E')
        else:
            return None
    res = {k: frozenset(v) for k, v in table.items()}
    facts._waitc = res
    return res


def is_pinned(c):
    return c is not None and set(c) <= {'T', 'F'} and c.get('T', PINNED['T']) == PINNED['T'] and c.get('F', PINNED['F']) <= PINNED['F']


def translate(body, evs):
    if body.key == WT:
        return evs
    c = contract(body.facts)
    if c is None or is_pinned(c):
        return evs
    out = []
    know = {}     # call value -> set of classes still possible
    changed = False

    def synth(proto, label, outcome, val):
        e = sem.SEv('BR', 0, proto.sec, proto.raw, {'label': label, 'outcome': outcome, 'val': val, 'synthetic': True})
        return e

    def emit(proto, callv, K, with_term=True):
        if K == frozenset('D'):
            out.append(synth(proto, 'waitOK', 'T', callv))
        elif K == frozenset('T'):
            out.append(synth(proto, 'waitOK', 'F', callv))
            if with_term:
                out.append(synth(proto, 'term', 'T', callv))
        elif K == frozenset('E'):
            out.append(synth(proto, 'waitOK', 'F', callv))
            if with_term:
                out.append(synth(proto, 'term', 'F', callv))
        elif K == frozenset('TE'):
            out.append(synth(proto, 'waitOK', 'F', callv))

    pending_wait = {}
    for e in evs:
        if ((e.name == 'CALL' and e.data.get('callee') == W_CALL) or e.name == 'SIG.wait') and isinstance(e.data.get('res'), tuple):
            pending_wait[e.data['res']] = True
        if e.name == 'BR':
            lab, oc, val = e.data.get('label'), e.data.get('outcome'), e.data.get('val')
            callv = None
            key = None
            if lab == 'waitOK' and isinstance(val, tuple) and val and val[0] == 'call' and val[2] == WT_CALL:
                callv, key = val, oc
            elif lab == 'discr:' + WT_CALL and isinstance(val, tuple) and len(val) > 1 and isinstance(val[1], tuple):
                callv, key = val[1], oc
            if callv is not None:
                K = c.get(key)
                changed = True
                if K is None:
                    out.append(e)   # `other(..)`: an outcome the table does not know - left as it is
                    continue
                know[callv] = K
                emit(e, callv, K)
                continue
            if lab == 'waitOK' and isinstance(val, tuple) and val and val[0] == 'call' and val[2] == W_CALL:
                pending_wait.pop(val, None)   # the caller looks at the blocking wait's own answer
            if lab == 'term' and pending_wait and not any(K == frozenset('DT') for K in know.values()):
                # `sig.wait(); if sig.is_terminated() {..}`: the blocking wait returns only in a final state (G6), its answer was not
                # looked at, the question is asked afterwards instead
                cv = list(pending_wait)[-1]
                pending_wait.pop(cv)
                if oc == 'T':
                    out.append(synth(e, 'waitOK', 'F', cv))
                    out.append(e)
                else:
                    out.append(e)
                    out.append(synth(e, 'waitOK', 'T', cv))
                changed = True
                continue
            if lab == 'term' and know:
                # `sig.is_terminated()` asked after the wait: refines what the result left open
                for cv, K in list(know.items()):
                    if K == frozenset('DT'):
                        K2 = frozenset('T') if oc == 'T' else frozenset('D')
                        know[cv] = K2
                        if oc == 'T':
                            out.append(synth(e, 'waitOK', 'F', cv))
                            out.append(e)
                        else:
                            out.append(e)
                            out.append(synth(e, 'waitOK', 'T', cv))
                        changed = True
                        break
                else:
                    out.append(e)
                continue
        out.append(e)
    if not changed:
        return evs
    for n, e in enumerate(out):
        e.idx = n
    return out
