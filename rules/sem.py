"""Event projection: raw path events -> semantic channel events with critical-section ids."""
from mir import (is_guard, ci_field_ref, ci_field_place, ci_field_load, is_call, fmt, canon)

CI = 'internal::ChannelInternal::'
SIG = 'signal::Signal::'
TERM = 'signal::SignalTerminator::'
VD = 'std::collections::VecDeque::'
MU = 'std::mem::MaybeUninit::'

WL_HELPERS = {
    CI + 'next_recv': 'NEXT_RECV', CI + 'next_send': 'NEXT_SEND',
    CI + 'push_send': 'PUSH_SEND', CI + 'push_recv': 'PUSH_RECV',
    CI + 'cancel_send_signal': 'CANCEL_SEND', CI + 'cancel_recv_signal': 'CANCEL_RECV',
    CI + 'send_signal_exists': 'EXISTS_SEND', CI + 'recv_signal_exists': 'EXISTS_RECV',
    CI + 'terminate_signals': 'TERMINATE_SIGNALS',
}
SIG_FUNCS = {
    SIG + 'new_sync': 'SIG.new_sync', SIG + 'new_async': 'SIG.new_async', SIG + 'new_async_ptr': 'SIG.new_async_ptr',
    SIG + 'wait': 'SIG.wait', SIG + 'wait_timeout': 'SIG.wait_timeout', SIG + 'poll': 'SIG.poll',
    SIG + 'async_blocking_wait': 'SIG.async_blocking_wait', SIG + 'is_terminated': 'SIG.is_terminated',
    SIG + 'register_waker': 'SIG.register_waker', SIG + 'set_ptr': 'SIG.set_ptr', SIG + 'will_wake': 'SIG.will_wake',
    SIG + 'assume_init': 'SIG.assume_init', SIG + 'load_and_drop': 'SIG.load_and_drop',
    SIG + 'get_terminator': 'SIG.get_terminator',
    SIG + 'send': 'SIGNAL.send', SIG + 'recv': 'SIGNAL.recv', SIG + 'terminate': 'SIGNAL.terminate',
    SIG + 'wake': 'SIGNAL.wake', SIG + 'send_copy': 'SIGNAL.send_copy',
    TERM + 'send': 'SIGSEND', TERM + 'recv': 'SIGRECV', TERM + 'terminate': 'SIGTERM',
    TERM + 'send_copy': 'SIGSENDCOPY',
}
SLOT_FUNCS = {
    MU + 'new': 'SLOT.new', MU + 'uninit': 'SLOT.uninit', MU + 'as_mut_ptr': 'SLOT.as_mut_ptr',
    MU + 'as_ptr': 'SLOT.as_ptr', MU + 'assume_init': 'SLOT.assume_init',
    MU + 'assume_init_drop': 'SLOT.assume_init_drop', MU + 'assume_init_read': 'SLOT.assume_init_read',
    MU + 'assume_init_mut': 'SLOT.assume_init_mut', MU + 'assume_init_ref': 'SLOT.assume_init_ref',
    MU + 'write': 'SLOT.write',
}
FUT_FUNCS = {
    'future::SendFuture::read_local_data': 'FUT.read_local_data',
    'future::ReceiveFuture::read_local_data': 'FUT.read_local_data',
    'future::SendFuture::drop_local_data': 'FUT.drop_local_data',
    'future::ReceiveFuture::drop_local_data': 'FUT.drop_local_data',
}


class SEv:
    __slots__ = ('name', 'idx', 'sec', 'raw', 'data', 'at')

    def __init__(self, name, idx, sec, raw, data=None):
        self.name = name
        self.idx = idx
        self.sec = sec
        self.raw = raw
        self.data = data or {}
        self.at = raw.at if raw is not None else None

    def __repr__(self):
        d = ''
        if self.name == 'BR':
            d = ' %s:%s' % (self.data['label'], self.data['outcome'])
        elif 'field' in self.data:
            d = ' ' + str(self.data['field'])
        s = '' if self.sec is None else '@%d' % self.sec
        return self.name + d + s


def strip_ref(v):
    while isinstance(v, tuple) and v and v[0] in ('ref', 'rawptr') and len(v) > 2 and v[2] is not None:
        v = v[2]
    return v


def _has_field(pl, f):
    while isinstance(pl, tuple) and pl and pl[0] in ('pfield', 'pdown'):
        if pl[0] == 'pfield' and pl[2] == f:
            return True
        pl = pl[1]
    return False


def _has_field_sibling(path):
    """is this a path of one of the futures (their signal is the field `sig` next to `data`)?"""
    k = path.body.key
    return 'SendFuture' in k or 'ReceiveFuture' in k or k.startswith('future::')


def _closure_agg(v):
    if isinstance(v, tuple) and v and v[0] in ('ref', 'rawptr') and len(v) > 2 and v[2] is not None:
        v = v[2]
    if isinstance(v, tuple) and v and v[0] == 'agg' and v[1] == 'closure':
        return v
    return None


def lazy_queue_drain(path, x):
    """x == from_fn(|| internal.queue.pop_front())  ->  key of the closure, else None"""
    if not (isinstance(x, tuple) and x and x[0] == 'call' and x[2] in ('std::iter::from_fn', 'core::iter::from_fn') and len(x[3]) == 1):
        return None
    c0 = _closure_agg(x[3][0])
    facts = path.body.facts
    if c0 is None or facts is None:
        return None
    b0 = facts.bodies.get(c0[2])
    if b0 is None:
        return None
    ps = b0.paths(1) or []
    if len(ps) != 1 or ps[0].end != 'return':
        return None
    r = ps[0].ret
    calls = [e for e in ps[0].events if e.kind == 'call' and e.name not in ('std::ops::Deref::deref', 'std::ops::DerefMut::deref_mut')]
    if not (r is not None and r[0] == 'call' and r[2] == VD + 'pop_front' and len(calls) == 1):
        return None
    a0 = r[3][0] if r[3] else None
    if a0 is None or a0[0] not in ('ref', 'rawptr') or not _has_field(a0[1], 'queue'):
        return None
    return c0[2]


def lazy_sender_drain(path, x):
    """x == from_fn(|| internal.next_send()).map(|p| p.recv())  ->  (key of the first closure, key of the second) else None"""
    if not (isinstance(x, tuple) and x and x[0] == 'call' and x[2] == 'std::iter::Iterator::map' and len(x[3]) == 2):
        return None
    src, c1 = x[3]
    if not (src[0] == 'call' and src[2] in ('std::iter::from_fn', 'core::iter::from_fn') and len(src[3]) == 1):
        return None
    c0 = _closure_agg(src[3][0])
    c1 = _closure_agg(c1)
    facts = path.body.facts
    if c0 is None or c1 is None or facts is None:
        return None
    b0, b1 = facts.bodies.get(c0[2]), facts.bodies.get(c1[2])
    if b0 is None or b1 is None:
        return None
    for b_, want, argpos in ((b0, 'internal::ChannelInternal::next_send', None), (b1, 'signal::SignalTerminator::recv', 2)):
        ps = b_.paths(1) or []
        rets = [p for p in ps if p.end == 'return']
        if len(rets) != 1 or len(ps) != 1:
            return None
        r = rets[0].ret
        calls = [e for e in rets[0].events if e.kind == 'call' and e.name not in ('std::ops::Deref::deref', 'std::ops::DerefMut::deref_mut')]
        if not (r is not None and r[0] == 'call' and r[2] == want) or len(calls) != 1:
            return None
        if argpos is not None and not contains(r[3], ('param', argpos)):
            return None
        if argpos is None and not contains(r[3], ('param', 1)):
            return None
    # the first closure must capture the channel guard of this path
    if not any(contains(c, 'ci') or True for c in c0[3]):
        return None
    return (c0[2], c1[2])


def guard_of_value(v):
    """guard token carried by value v (the token itself, or Some-payload thereof)"""
    if is_guard(v):
        return v
    return None


def project(path):
    """the projection of a path with the events of diagnostic fields (rules/diag.py) removed"""
    import diag
    import waitc
    return waitc.translate(path.body, diag.strip(path.body, project_raw(path)))


def project_raw(path):
    """returns list of SEv.  Section id = index of the LOCK event whose guard is live."""
    out = []
    held = []  # stack of (guard_token, sec_id)
    sec_counter = [0]

    def cur():
        return held[-1][1] if held else None

    def add(name_, raw, **data):
        e = SEv(name_, len(out), cur(), raw, data)
        out.append(e)
        return e

    pending_try = {}
    fs_excluded = set()
    # bulk transfer of the whole buffer into a collection: `vec.extend(queue.drain(..))` / `vec.extend(mem::take(&mut queue))`
    bulk = {}  # value of the drain()/take() call -> the extend() that consumes it
    queue_bulk = {}    # extend() event -> closure key for `vec.extend(from_fn(|| internal.queue.pop_front()))`
    senders_bulk = {}  # extend() event -> (closure keys) for `vec.extend(from_fn(|| internal.next_send()).map(|p| p.recv()))`
    for ev in path.events:
        if ev.kind == 'call' and ev.name == 'std::iter::Extend::extend' and len(ev.args) == 2:
            cl = lazy_sender_drain(path, ev.args[1])
            if cl is not None:
                senders_bulk[id(ev)] = cl
            cq = lazy_queue_drain(path, ev.args[1])
            if cq is not None:
                queue_bulk[id(ev)] = cq
    for ev in path.events:
        if ev.kind == 'call' and ev.name == 'std::iter::Extend::extend' and len(ev.args) == 2:
            srcv = ev.args[1]
            if srcv[0] == 'call' and srcv[3] and ci_field_ref(srcv[3][0]) == 'queue':
                if srcv[2] == VD + 'drain' and len(srcv[3]) == 2 and srcv[3][1][0] == 'agg' and srcv[3][1][1].endswith('RangeFull'):
                    bulk[srcv] = ev
                elif srcv[2] in ('std::mem::take',):
                    bulk[srcv] = ev
    def iter_source(v, depth=0):
        """what an iterator value iterates over: ('drain',) for queue.drain(..), ('range', end) for 0..end, else None"""
        if v is None or depth > 4:
            return None
        if v[0] in ('ref', 'rawptr') and len(v) > 2 and v[2] is not None:
            return iter_source(v[2], depth + 1)
        if v[0] == 'call' and v[2] == 'std::iter::IntoIterator::into_iter' and v[3]:
            return iter_source(v[3][0], depth + 1)
        if v[0] == 'call' and v[2] == VD + 'drain' and len(v[3]) == 2 and ci_field_ref(v[3][0]) == 'queue' \
                and v[3][1][0] == 'agg' and v[3][1][1].endswith('RangeFull'):
            return ('drain', v)
        if v[0] == 'agg' and v[1].endswith('ops::Range') and len(v[3]) == 2 and v[3][0][0] == 'const' and str(v[3][0][2]) == '0':
            return ('range', v[3][1])
        return None

    drain_loops = set()
    for ev in path.events:
        if ev.kind == 'call' and ev.name == 'std::iter::Iterator::next' and ev.args:
            s_ = iter_source(ev.args[0])
            if s_ is not None and s_[0] == 'drain':
                drain_loops.add(s_[1])
    next_calls = {}   # value of a next() call on a tracked iterator -> source
    range_iters = {}  # range end value -> [n_some]
    for ev in path.events:
        k = ev.kind
        if k == 'call':
            n = ev.name
            a = ev.args
            if ev.val in bulk:
                continue  # reported at the extend() that consumes it
            if n == 'std::mem::take' and len(a) == 1 and ci_field_ref(a[0]) == 'queue' and any(
                    (x.kind == 'drop' and x.val == ev.val) or (x.kind == 'call' and x.name == 'std::mem::drop' and x.args and x.args[-1] == ev.val)
                    for x in path.events if x.idx > ev.idx):
                # `let q = mem::take(&mut internal.queue); drop(internal); drop(q)`: the buffer is emptied here, its values are
                # destroyed further down this path (after the unlock) - clear() with the destructors moved out of the lock
                add('Q.clear', ev, args=(), res=ev.val, via='mem::take+drop')
                continue
            if ev.val in drain_loops:
                continue  # `for v in queue.drain(..)`: each next() below is one pop_front
            if n == 'std::iter::Iterator::next' and a:
                s_ = iter_source(a[0])
                if s_ is not None and s_[0] == 'drain':
                    next_calls[ev.val] = s_
                    add('Q.pop_front', ev, args=(), res=ev.val, via='drain-iter')
                    continue
                if s_ is not None and s_[0] == 'range':
                    next_calls[ev.val] = s_
            if n == 'std::iter::Extend::extend' and id(ev) in queue_bulk:
                add('Q.drain_all', ev, args=(), res=a[1], vec=a[0], via='from_fn(pop_front)')
                add('Q.pop_front', ev, args=(), res=('bulk', a[1]), synthetic=True)
                add('BR', ev, label='pop', outcome='None', val=('bulk', a[1]), synthetic=True)
                continue
            if n == 'std::iter::Extend::extend' and id(ev) in senders_bulk:
                # every blocked sender, oldest first, received into the vector: the lazy spelling of
                # `while let Some(p) = next_send() { vec.push(p.recv()) }` (which ends by observing next_send() == None)
                add('WL.drain_senders', ev, args=(), res=a[1], vec=a[0], closures=senders_bulk[id(ev)])
                add('NEXT_SEND', ev, args=(), res=('bulk-senders', a[1]), recv=None, synthetic=True)
                add('BR', ev, label='next_send', outcome='None', val=('bulk-senders', a[1]), synthetic=True)
                continue
            if n == 'std::iter::Extend::extend' and len(a) == 2 and a[1] in bulk:
                add('Q.drain_all', ev, args=(), res=a[1], vec=a[0], via=a[1][2])
                # for the rules that ask "was the buffer looked at and found empty": afterwards it is empty
                add('Q.pop_front', ev, args=(), res=('bulk', a[1]), synthetic=True)
                add('BR', ev, label='pop', outcome='None', val=('bulk', a[1]), synthetic=True)
                continue
            if n == 'std::iter::Extend::extend' and len(a) == 2 and ci_field_ref(a[0]) == 'queue' and a[1][0] == 'agg' \
                    and a[1][1] == 'std::option::Option':
                # `queue.extend(opt)`: an Option iterates over at most one item, appended at the tail
                if a[1][2] == 'Some' and a[1][3]:
                    add('Q.push_back', ev, args=(a[1][3][0],), res=ev.val, via='extend(Option)')
                continue
            if n == 'internal::acquire_internal':
                e = add('LOCK', ev, guard=ev.val, nested=bool(held))
                sid = sec_counter[0]
                sec_counter[0] += 1
                held.append((ev.val, sid))
                e.data['sid'] = sid
                continue
            if n == 'internal::try_acquire_internal':
                add('TRYLOCK_CALL', ev, res=ev.val)
                pending_try[ev.val] = ev
                continue
            if n == 'std::mem::drop' and len(a) >= 1 and guard_of_value(a[-1]) is not None:
                g = a[-1]
                add('UNLOCK', ev, guard=g, how='mem::drop')
                held[:] = [h for h in held if h[0] != g]
                continue
            if n == 'std::mem::drop' and len(a) >= 1:
                add('MEMDROP', ev, val=a[-1])
                continue
            if n == 'std::mem::forget' and len(a) >= 1:
                add('FORGET', ev, val=a[-1])
                continue
            if n == 'std::mem::ManuallyDrop::new' and len(a) == 1 and path.body.key.startswith('pointer::') and not any(
                    x.kind == 'call' and x.name in ('std::mem::ManuallyDrop::drop', 'std::mem::ManuallyDrop::into_inner', 'std::mem::ManuallyDrop::take')
                    for x in path.events):
                # `let d = ManuallyDrop::new(d)`: the value is never dropped by this function - `forget(d)` that keeps the bits usable
                add('CALL', ev, callee=n, args=a, res=ev.val)
                add('FORGET', ev, val=a[-1], how='ManuallyDrop')
                continue
            if n in ('std::ops::Deref::deref', 'std::ops::DerefMut::deref_mut') and ev.val[0] == 'ci':
                continue  # plumbing
            if n.startswith(VD) and a:
                f = ci_field_ref(a[0])
                m = n[len(VD):]
                if f == 'queue':
                    add('Q.' + m, ev, args=a[1:], res=ev.val)
                    continue
                if f == 'wait_list':
                    if m == 'drain' and len(a) == 2 and a[1][0] == 'agg' and a[1][1].endswith('RangeFull'):
                        m = 'drain_all'  # the whole list, oldest first; what is not consumed is dropped with the Drain
                    add('WL.' + m, ev, args=a[1:], res=ev.val)
                    continue
                add('VD.' + m, ev, args=a, res=ev.val)
                continue
            if n in WL_HELPERS:
                add(WL_HELPERS[n], ev, args=a[1:], res=ev.val, recv=a[0] if a else None)
                continue
            if n in SIG_FUNCS:
                add(SIG_FUNCS[n], ev, args=a, res=ev.val)
                if a and a[0][0] in ('ref', 'rawptr') and _has_field(a[0][1], 'sig') and _has_field_sibling(path):
                    if SIG_FUNCS[n] == 'SIG.assume_init':
                        add('FUT.read_local_data', ev, args=a, res=ev.val, derived=True, via='signal')
                    elif SIG_FUNCS[n] == 'SIG.load_and_drop':
                        add('FUT.drop_local_data', ev, args=a, res=ev.val, derived=True, via='signal')
                continue
            if n == 'pointer::KanalPtr::read' and a and a[0][0] in ('ref', 'rawptr') and isinstance(a[0][1], tuple) and a[0][1][0] == 'pfield' \
                    and a[0][1][2] == 'ptr' and _has_field(a[0][1][1], 'sig') and a[0][1][1][0] == 'pfield' and a[0][1][1][2] == 'sig' \
                    and _has_field_sibling(path):
                # `self.sig.ptr.read()` in a future: Signal::assume_init written out; when the value read is dropped on the spot
                # (`_ = self.sig.ptr.read()`) it is Signal::load_and_drop written out
                add('CALL', ev, callee=n, args=a, res=ev.val)
                sigref = ('ref', a[0][1][1], None)
                dropped = any((x.kind == 'drop' and x.val == ev.val) or
                              (x.kind == 'call' and x.name == 'std::mem::drop' and x.args and x.args[-1] == ev.val) for x in path.events)
                if dropped:
                    add('SIG.load_and_drop', ev, args=(sigref,), res=ev.val, derived=True)
                    add('FUT.drop_local_data', ev, args=(sigref,), res=ev.val, derived=True, via='signal')
                else:
                    add('SIG.assume_init', ev, args=(sigref,), res=ev.val, derived=True)
                    add('FUT.read_local_data', ev, args=(sigref,), res=ev.val, derived=True, via='signal')
                continue
            if n == 'std::mem::replace' and len(a) == 2 and a[0][0] in ('ref', 'rawptr') and isinstance(a[0][1], tuple) and a[0][1][0] == 'pfield' \
                    and a[0][1][2] == 'waker' and _has_field(a[0][1][1], 'sig') and a[1][0] == 'agg' and a[1][1].endswith('KanalWaker') \
                    and a[1][2] == 'Async' and a[1][3] and _has_field_sibling(path):
                # `mem::replace(&mut self.sig.waker, KanalWaker::Async(w))` in a future: register_waker written out (the old waker is
                # handed back so that it can be dropped after the unlock); `w` may be a clone of cx.waker() made before the lock
                add('CALL', ev, callee=n, args=a, res=ev.val)
                w = a[1][3][0]
                if w[0] == 'call' and w[2] == 'std::clone::Clone::clone' and w[3]:
                    w = strip_ref(w[3][0])
                add('SIG.register_waker', ev, args=(('ref', a[0][1][1], None), w), res=ev.val, derived=True)
                continue
            if n in SLOT_FUNCS:
                add(SLOT_FUNCS[n], ev, args=a, res=ev.val)
                # the futures' local-data helpers written out / moved into free functions: the primitive on the future's own
                # `data` field is the helper's effect
                if a and a[0][0] in ('ref', 'rawptr') and _has_field(a[0][1], 'data'):
                    if n.endswith('::assume_init_drop'):
                        add('FUT.drop_local_data', ev, args=a, res=ev.val, derived=True, via='slot')
                    elif n.endswith('::assume_init_read'):
                        add('FUT.read_local_data', ev, args=a, res=ev.val, derived=True, via='slot')
                continue
            if n == 'std::ptr::read' and a and a[-1][0] == 'call' and a[-1][2] in (MU + 'as_ptr', MU + 'as_mut_ptr') and a[-1][3] \
                    and a[-1][3][0][0] in ('ref', 'rawptr') and a[-1][3][0][1][0] == 'local':
                # `ptr::read(slot.as_ptr())` on a local MaybeUninit slot: the bitwise spelling of `slot.assume_init_read()`
                add('CALL', ev, callee=n, args=a, res=ev.val)
                add('SLOT.assume_init_read', ev, args=(a[-1][3][0],), res=ev.val, derived=True)
                continue
            if n == 'std::ptr::read' and a and a[-1][0] == 'call' and a[-1][2] in (MU + 'as_ptr', MU + 'as_mut_ptr') and a[-1][3] \
                    and a[-1][3][0][0] in ('ref', 'rawptr') and _has_field(a[-1][3][0][1], 'data'):
                add('CALL', ev, callee=n, args=a, res=ev.val)
                add('FUT.read_local_data', ev, args=a, res=ev.val, derived=True, via='slot')
                continue
            if n in FUT_FUNCS:
                add(FUT_FUNCS[n], ev, args=a, res=ev.val)
                continue
            if n == 'std::option::Option::take':
                add('OPT.take', ev, args=a, res=ev.val)
                continue
            if n == 'std::option::Option::unwrap':
                add('OPT.unwrap', ev, args=a, res=ev.val)
                continue
            if n == 'std::time::Instant::now':
                add('NOW', ev, res=ev.val)
                continue
            if n in ('std::cmp::PartialEq::eq', 'std::cmp::PartialEq::ne') and len(a) == 2 and all(
                    isinstance(x, tuple) and x and x[0] == 'ref' and len(x) > 2 and x[1][0] == 'local' and x[2] is not None for x in a):
                # `a == b` on two references goes through `impl PartialEq<&B> for &A`, which takes `&&A, &&B` and forwards to
                # `A::eq(*a, *b)`: the comparison the rules know, one reference level down
                a = tuple(x[2] for x in a)
            add('CALL', ev, callee=n, args=a, res=ev.val)
            continue
        if k == 'br':
            if ev.label == 'trylocked' and ev.outcome == 'Some':
                # the guard token is the Some-payload of the try call
                d = ev.val
                src_ = d[1]
                if src_[0] == 'call' and src_[2] == 'std::ops::Try::branch':
                    from mir import try_operand
                    src_ = try_operand(src_)  # `try_acquire_internal(..)?`
                tok = ('field', ('downcast', src_, 'Some'), '0')
                e = add('TRYLOCK', ev, guard=tok)
                sid = sec_counter[0]
                sec_counter[0] += 1
                held.append((tok, sid))
                e.data['sid'] = sid
                add('BR', ev, label=ev.label, outcome=ev.outcome, val=ev.val)
                continue
            src_ = None
            if ev.label == 'iter_next' and ev.val[0] == 'discr' and ev.val[1] in next_calls:
                src_ = next_calls[ev.val[1]]
            if src_ is not None and src_[0] == 'drain':
                add('BR', ev, label='pop', outcome=ev.outcome, val=ev.val)
                continue
            if src_ is not None and src_[0] == 'range':
                add('BR', ev, label=ev.label, outcome=ev.outcome, val=ev.val)
                st_ = range_iters.setdefault(src_[1], [0])
                if ev.outcome == 'Some':
                    st_[0] += 1
                else:
                    # `for _ in 0..queue.len() { pop_front() }` under one lock: when the range is exhausted and every
                    # iteration popped exactly once, the buffer is empty - the counted form of `while let Some(..) = pop_front()`
                    ql = [x for x in out if x.name == 'Q.len' and x.data.get('res') == src_[1] and x.sec is not None and x.sec == cur()]
                    if ql:
                        since = [x for x in out if x.idx > ql[-1].idx and x.name.startswith('Q.') and x.name not in ('Q.len', 'Q.is_empty', 'Q.capacity')]
                        if all(x.name == 'Q.pop_front' for x in since) and len(since) == st_[0]:
                            add('Q.exhausted', ev, args=(), res=None, synthetic=True)
                            add('Q.pop_front', ev, args=(), res=('counted', src_[1]), synthetic=True)
                            add('BR', ev, label='pop', outcome='None', val=('counted', src_[1]), synthetic=True)
                continue
            if ev.label == 'fs_done' and ev.outcome == 'F':
                fs_excluded.add('Done')
            if ev.label == 'fs_waiting' and ev.outcome == 'F':
                fs_excluded.add('Waiting')
            if ev.label == 'fstate' and str(ev.outcome).startswith('other('):
                # `if state.is_done() {..}` earlier on the path, then `match state { Zero => .., _ => .. }`
                opts = [x for x in str(ev.outcome)[6:-1].split('|') if x not in fs_excluded]
                if len(opts) == 1:
                    add('BR', ev, label=ev.label, outcome=opts[0], val=ev.val)
                    continue
            if ev.label is not None:
                add('BR', ev, label=ev.label, outcome=ev.outcome, val=ev.val)
            else:
                add('BR?', ev, label=None, outcome=None, val=ev.val, taken=ev.taken)
            continue
        if k == 'rd':
            f = ci_field_place(ev.place)
            if f is not None:
                add('RD', ev, field=f)
            else:
                add('RDMEM', ev, place=ev.place)
            continue
        if k == 'wr':
            f = ci_field_place(ev.place)
            if f is not None:
                add('WR', ev, field=f, val=ev.val)
            else:
                add('WRMEM', ev, place=ev.place, val=ev.val)
            continue
        if k == 'drop':
            g = guard_of_value(ev.val)
            if g is not None:
                add('UNLOCK', ev, guard=g, how='scope')
                held[:] = [h for h in held if h[0] != g]
                continue
            # Option<guard> temp that still holds a guard
            if ev.val[0] == 'call' and ev.val[2] == 'internal::try_acquire_internal':
                tok = ('field', ('downcast', ev.val, 'Some'), '0')
                if any(h[0] == tok for h in held):
                    add('UNLOCK', ev, guard=tok, how='scope')
                    held[:] = [h for h in held if h[0] != tok]
                continue
            # a compound value that carries a held guard (`Err((guard, data))`, `Step::Full(guard)`): dropping it releases the
            # lock (fields drop in declaration order; the DROP of the rest is reported after the unlock)
            hit = [h for h in held if isinstance(ev.val, tuple) and ev.val and ev.val[0] == 'agg' and contains(ev.val, h[0])]
            for h in hit:
                add('UNLOCK', ev, guard=h[0], how='scope-compound')
                held[:] = [x for x in held if x[0] != h[0]]
            add('DROP', ev, place=ev.place, val=ev.val, ty=ev.extra)
            continue
        if k == 'ret':
            add('RET', ev, val=ev.val, fields=ev.extra)
            continue
        if k == 'assert':
            add('ASSERT', ev, val=ev.val, msg=ev.extra)
            continue
        if k == 'intrinsic':
            add('INTRINSIC', ev, val=ev.val)
            continue
    if path.end == 'panic':
        out.append(SEv('PANIC', len(out), cur(), None, {}))
    elif path.end == 'unreachable':
        out.append(SEv('UNREACHABLE', len(out), cur(), None, {}))
    _pair_split_recv(out)
    return out


def waker_kept(evs, before, sec=None):
    """the future's own signal already holds a waker that wakes the task polling now: a branch `stored.will_wake(cx.waker())` == true
    on the Async payload of the future's `sig.waker`, observed before event index `before` (registering again would store an
    equivalent waker)"""
    for e in evs:
        if e.idx >= before:
            break
        if e.name == 'BR' and e.data['label'] == 'waker_same' and e.data['outcome'] == 'T':
            v = e.data['val']
            while v[0] == 'un':
                v = v[2]
            if v[0] != 'call' or len(v[3]) != 2:
                continue
            stored, new = v[3]
            if contains_field(stored, 'waker') and contains_field(stored, 'sig') and contains_call(new, 'std::task::Context::waker'):
                return True
    return False


def contains_field(v, f, depth=0):
    if not isinstance(v, tuple) or depth > 40:
        return False
    if v and v[0] in ('pfield', 'field') and len(v) > 2 and v[2] == f:
        return True
    return any(contains_field(x, f, depth + 1) for x in v if isinstance(x, tuple))


def contains_call(v, name, depth=0):
    if not isinstance(v, tuple) or depth > 40:
        return False
    if v and v[0] == 'call' and v[2] == name:
        return True
    return any(contains_call(x, name, depth + 1) for x in v if isinstance(x, tuple))


def _pair_split_recv(out):
    """`SignalTerminator::recv` (read the payload, then wake the owner with UNLOCKED) written as two steps so that the wake can
    run after the channel lock was released (`queue.push_back(p.take_value()); drop(internal); p.finish_recv()`): a read of the
    popped sender's payload - through Signal::assume_init or KanalPtr::read on that signal - that is followed on the same path
    by exactly one `Signal::wake(that signal, UNLOCKED)` is presented as SIGRECV (at the read, which is where the value is
    obtained) plus SIGFIN (at the wake).  A read without its wake stays what it is, and the rules report a sender that is never
    completed."""
    def term_of(ptrv):
        # ptrv: the raw pointer `term.0` (field 0 of a next_send payload), possibly behind a ref/deref
        v = ptrv
        for _ in range(4):
            if isinstance(v, tuple) and v and v[0] in ('ref', 'rawptr') and isinstance(v[1], tuple) and v[1] and v[1][0] == 'deref':
                v = v[1][1]
            else:
                break
        if isinstance(v, tuple) and v and v[0] == 'field' and v[2] == '0' and isinstance(v[1], tuple) and v[1] and v[1][0] == 'field' \
                and v[1][2] == '0' and v[1][1][0] == 'downcast' and v[1][1][2] == 'Some':
            return v[1], v
        return None, None
    nexts = {}
    for e in out:
        if e.name == 'NEXT_SEND':
            nexts[('field', ('downcast', e.data['res'], 'Some'), '0')] = e
    if not nexts:
        return
    for e in out:
        ptr = None
        if e.name == 'SIG.assume_init' and e.data.get('args') and not e.data.get('derived'):
            ptr = e.data['args'][0]
        elif e.name == 'CALL' and e.data.get('callee') == 'pointer::KanalPtr::read' and e.data.get('args'):
            a0 = e.data['args'][0]
            if a0[0] in ('ref', 'rawptr') and isinstance(a0[1], tuple) and a0[1][0] == 'pfield' and a0[1][2] == 'ptr' and a0[1][1][0] == 'deref':
                ptr = a0[1][1][1]
        if ptr is None:
            continue
        term, rawp = term_of(ptr)
        if term is None or term not in nexts:
            continue
        wakes = [w for w in out if w.name == 'SIGNAL.wake' and w.data.get('args') and term_of(w.data['args'][0])[0] == term]
        if len(wakes) != 1 or wakes[0].idx < e.idx:
            continue
        w = wakes[0]
        fin = w.data['args'][1] if len(w.data['args']) > 1 else None
        if not (fin is not None and fin[0] == 'const' and str(fin[2]) == '0'):
            continue
        e.data = {'args': (term,), 'res': e.data.get('res'), 'split': True, 'via': e.name, 'fin_idx': w.idx}
        e.name = 'SIGRECV'
        w.data = {'args': (term,), 'res': w.data.get('res'), 'split': True}
        w.name = 'SIGFIN'


def contains(v, tok, depth=0):
    """does value/place tree v contain tok as a subtree"""
    if v == tok:
        return True
    if not isinstance(v, tuple) or depth > 40:
        return False
    for x in v:
        if isinstance(x, tuple) and contains(x, tok, depth + 1):
            return True
    return False


def ret_shape(v):
    """normal form of a returned value: ('Ok', inner) / ('Err', 'Variant') / ('Ready', shape) / ('Pending',) / raw"""
    if v is None:
        return ('?',)
    if v[0] == 'agg':
        name, var, fields = v[1], v[2], v[3]
        last = name.split('::')[-1]
        if last == 'Result':
            if var == 'Ok':
                return ('Ok', fields[0] if fields else None)
            if var == 'Err':
                f = fields[0] if fields else None
                if f is not None and f[0] == 'agg':
                    return ('Err', f[2])
                return ('Err', f)
        if last == 'Poll':
            if var == 'Ready':
                return ('Ready', ret_shape(fields[0]) if fields else None)
            return ('Pending',)
        if last == 'Option':
            if var == 'Some':
                return ('Some', fields[0] if fields else None)
            return ('None',)
    if v[0] == 'const' and v[1] == 'bool':
        return ('bool', v[2] == '1')
    return ('val', v)


def is_true(v):
    return v is not None and v[0] == 'const' and v[1] == 'bool' and v[2] == '1'


def is_false(v):
    return v is not None and v[0] == 'const' and v[1] == 'bool' and v[2] == '0'


def is_unit(v):
    return v is not None and v[0] == 'agg' and v[1] == 'tuple' and not v[3]


def labels(evs, upto=None, sec=None):
    """dict label -> list of outcomes for BR events before index upto (optionally only in section sec)"""
    d = {}
    for e in evs:
        if upto is not None and e.idx >= upto:
            break
        if e.name == 'BR' and (sec is None or e.sec == sec):
            d.setdefault(e.data['label'], []).append(e.data['outcome'])
    return d


def has(lbls, label, outcome):
    return outcome in lbls.get(label, [])
