"""H rules (helper summaries in internal.rs / signal.rs) and Q1 (end discipline).  DESIGN.md §3.1, §3.2."""
from engine import rule
import fam
import sem
from sem import labels, has, contains
from mir import fmt, canon, is_const

CIK = 'internal::ChannelInternal::<T>::'


def ret_paths(ctx, b):
    ps = ctx.paths(b)
    if ps is None:
        ctx.violate(b.key, None, 'cannot analyse: path explosion', sig='paths')
        return
    for p in ps:
        if p.end == 'return':
            yield p, ctx.sem(p)


def getbody(ctx, key):
    b = ctx.body(key)
    if b is None:
        ctx.violate(key, None, 'anchor missing: helper not found', sig='anchor')
    return b


WL_MUT = ('WL.push_back', 'WL.push_front', 'WL.pop_front', 'WL.pop_back', 'WL.remove', 'WL.clear', 'WL.swap_remove_back',
          'WL.swap_remove_front', 'WL.insert', 'WL.drain', 'WL.retain', 'WL.truncate', 'WL.rotate_left', 'WL.rotate_right',
          'WL.swap', 'WL.iter_mut', 'WL.append', 'WL.split_off', 'WL.make_contiguous', 'WL.extend', 'WL.resize', 'WL.retain_mut')


def wl_mutators(evs):
    return [e for e in evs if e.name.startswith('WL.') and e.name not in ('WL.len', 'WL.is_empty', 'WL.iter', 'WL.capacity', 'WL.front', 'WL.back', 'WL.get', 'WL.contains')]


def explicit_try_match(p, evs):
    """one path of `match m.try_lock() {..}` (std-mutex): exactly one try_lock of the argument; on Ok the guard is returned in `Some`,
    on Err - blocked or poisoned alike - `None`, the only other thing done being the drop of the error (which releases a poisoned
    guard exactly as `.ok()` does).  Returns 'Ok' / 'Err' / None (not of this form)."""
    calls = [e for e in p.events if e.kind == 'call']
    tl = [e for e in calls if e.name == 'std::sync::Mutex::try_lock']
    if len(tl) != 1:
        return None
    a = tl[0].args[0] if tl[0].args else None
    if not (a == ('param', 1) or (a is not None and a[0] == 'call' and a[2] == 'std::ops::Deref::deref' and a[3][0] == ('param', 1))):
        return None
    res = tl[0].val
    for e in calls:
        if e is tl[0] or e.name == 'std::ops::Deref::deref':
            continue
        if e.name in ('std::mem::drop', 'std::sync::PoisonError::into_inner') and e.args and contains(e.args[0], res):
            continue
        return None
    if any(e.name in ('LOCK', 'WR') or e.name.startswith(('WL.', 'Q.')) for e in evs):
        return None
    out = [e.data['outcome'] for e in evs if e.name == 'BR' and e.data['label'] == 'discr:std::sync::Mutex::try_lock' and contains(e.data['val'], res)]
    if not out or len(set(out)) != 1:
        return None
    r = p.ret
    if out[0] == 'Ok':
        ok = r is not None and r[0] == 'agg' and r[2] == 'Some' and r[3] and r[3][0] == ('field', ('downcast', res, 'Ok'), '0')
        return 'Ok' if ok else None
    if out[0] == 'Err':
        ok = r is not None and r[0] == 'agg' and r[2] == 'None'
        return 'Err' if ok else None
    return None


@rule('H1', ['C03', 'C14', 'C17'], 'acquire_internal / try_acquire_internal are exactly lock() / try_lock() on the argument')
def h1(ctx):
    for key, want, forbid in (('internal::acquire_internal', 'lock', ()), ('internal::try_acquire_internal', 'try_lock', ('lock',))):
        b = getbody(ctx, key)
        if b is None:
            continue
        ctx.instance(key)
        if b.has_cycle():
            ctx.violate(key, None, '%s contains a loop' % key, sig='cycle')
        paths = list(ret_paths(ctx, b))
        explicit = ctx.std_mutex() and want == 'try_lock' and len(paths) > 1 and all(explicit_try_match(p, evs) for p, evs in paths) \
            and {explicit_try_match(p, evs) for p, evs in paths} == {'Ok', 'Err'}
        if explicit:
            # `match m.try_lock() { Ok(g) => Some(g), Err(WouldBlock) => None, Err(Poisoned(p)) => { drop(p); None } }`: `.ok()` written out
            for p, evs in paths:
                ctx.oblige(1, sample='%s returns %s' % (key, fmt(p.ret)))
            continue
        if len(paths) != 1:
            ctx.violate(key, None, '%s has %d paths (must be straight-line)' % (key, len(paths)), sig='paths')
        for p, evs in paths:
            ctx.oblige(1, sample='%s returns %s' % (key, fmt(p.ret)))
            r = p.ret
            names = [e.name for e in p.events if e.kind == 'call']
            allowed = {'std::ops::Deref::deref', 'lock_api::Mutex::' + want, 'std::sync::Mutex::' + want,
                       'std::result::Result::unwrap', 'std::result::Result::ok'}
            core = r
            # a crate-private newtype around the guard (with Deref/DerefMut and no Drop of its own): `Guard(m.lock())` /
            # `m.try_lock().map(Guard)`
            wrapper = None
            if core is not None and core[0] == 'agg' and len(core[3]) == 1 and core[1] in ctx.facts.adts_by_canon():
                wrapper = core[1]
                core = core[3][0]
            elif core is not None and core[0] == 'call' and core[2] == 'std::option::Option::map' and len(core[3]) == 2 and core[3][1][0] == 'fnptr' \
                    and core[3][1][1] in ctx.facts.adts_by_canon():
                wrapper = core[3][1][1]
                core = core[3][0]
                allowed.add('std::option::Option::map')
            if wrapper is not None:
                wa = ctx.facts.adts_by_canon()[wrapper]
                nf = sum(len(v['fields']) for v in wa['variants'])
                has_drop = any(i.get('of_trait') and canon(i.get('trait', '')) == 'std::ops::Drop' and canon(i.get('self_ty', '')).split('<')[0] == wrapper for i in ctx.facts.impls)
                if nf != 1 or has_drop:
                    ctx.violate(key, p, '%s wraps the guard in %s, which is not a plain single-field newtype without Drop' % (key, wrapper))
            for n in names:
                if n not in allowed:
                    ctx.violate(key, p, '%s calls %s' % (key, n))
            if ctx.std_mutex():
                if core is not None and core[0] == 'call' and core[2] in ('std::result::Result::unwrap', 'std::result::Result::ok'):
                    core = core[3][0]
                else:
                    ctx.violate(key, p, 'std-mutex: result of %s is not unwrapped/ok()' % want)
                    continue
            if not (core is not None and core[0] == 'call' and core[2].endswith('Mutex::' + want)):
                ctx.violate(key, p, '%s does not return Mutex::%s(..): %s' % (key, want, fmt(r)))
                continue
            a = core[3][0]
            if not (a[0] == 'call' and a[2] == 'std::ops::Deref::deref' and a[3][0] == ('param', 1)) and a != ('param', 1):
                ctx.violate(key, p, '%s locks something other than its argument: %s' % (key, fmt(a)))


def kind_flag_ok(evs, want):
    """all WL events happen under recv_blocking:<want>"""
    lb = labels(evs)
    return has(lb, 'recv_blocking', want) and not has(lb, 'recv_blocking', 'T' if want == 'F' else 'F')


@rule('H2', ['C01', 'C02', 'C18', 'C06'], 'next_send / next_recv: kind flag test, removal at the removal end, lazy flag flip on empty')
def h2(ctx):
    for name, blocked, flip in (('next_send', 'T', '1'), ('next_recv', 'F', '0')):
        key = CIK + name
        b = getbody(ctx, key)
        if b is None:
            continue
        ctx.instance(key)
        kinds = set()
        for p, evs in ret_paths(ctx, b):
            ctx.oblige(1, sample='%s [%s] -> %s' % (name, p.signature(), fmt(p.ret)))
            lb = labels(evs)
            r = p.ret
            muts = wl_mutators(evs)
            wrs = [e for e in evs if e.name == 'WR']
            if has(lb, 'recv_blocking', blocked):
                kinds.add('wrong-kind')
                if muts or wrs:
                    ctx.violate(key, p, '%s touches the wait list although it holds the other kind of waiter' % name)
                if not (r[0] == 'agg' and r[2] == 'None'):
                    ctx.violate(key, p, '%s returns a waiter of the wrong kind' % name)
                continue
            if not has(lb, 'recv_blocking', 'F' if blocked == 'T' else 'T'):
                ctx.violate(key, p, '%s does not test recv_blocking' % name)
                continue
            pops = [e for e in evs if e.name in ('WL.pop_front', 'WL.pop_back')]
            wle = [e for e in evs if e.name == 'WL.is_empty']
            if wle and has(lb, 'other_is_empty', 'T') and not has(lb, 'other_is_empty', 'F') and not pops:
                # `if self.wait_list.is_empty() { flip; None } else { self.wait_list.pop_front() }`: emptiness asked first
                kinds.add('none')
                if muts:
                    ctx.violate(key, p, '%s mutates the wait list it found empty' % name)
                if not (r[0] == 'agg' and r[2] == 'None'):
                    ctx.violate(key, p, '%s returns something although the list is empty' % name)
                if len(wrs) != 1 or wrs[0].data['field'] != 'recv_blocking' or not is_const(wrs[0].data['val'], flip):
                    ctx.violate(key, p, '%s must set recv_blocking=%s when it finds the list empty' % (name, 'true' if flip == '1' else 'false'))
                continue
            if len(pops) != 1 or len(muts) != 1:
                ctx.violate(key, p, '%s must remove exactly once from the wait list (mutators: %s)' % (name, [m.name for m in muts]))
                continue
            popv = pops[0].data['res']
            if wle and has(lb, 'other_is_empty', 'F') and not has(lb, 'other_is_empty', 'T') and wle[0].idx < pops[0].idx:
                kinds.add('some')
                pay0 = ('field', ('downcast', popv, 'Some'), '0')
                if not (r == popv or (r[0] == 'agg' and r[2] == 'Some' and r[3][0] == pay0)):
                    ctx.violate(key, p, '%s does not return the removed entry' % name)
                if wrs:
                    ctx.violate(key, p, '%s flips the kind flag although the list was not empty' % name)
                continue
            pay = ('field', ('downcast', popv, 'Some'), '0')
            # was the list found empty?  `match pop {Some/None}` or `pop.is_none()` / `is_some()` on the popped value
            empty = None
            if has(lb, 'pop', 'Some') or has(lb, 'pop_back', 'Some'):
                empty = False
            elif has(lb, 'pop', 'None') or has(lb, 'pop_back', 'None'):
                empty = True
            else:
                for e in evs:
                    if e.name == 'BR' and e.data['label'] in ('opt_none', 'opt_some') and contains(e.data['val'], popv):
                        t_ = e.data['outcome'] == 'T'
                        empty = t_ if e.data['label'] == 'opt_none' else (not t_)
            if empty is None:
                ctx.violate(key, p, '%s does not examine whether the wait list was empty' % name)
                continue
            returns_pop = (r == popv)
            if not empty:
                kinds.add('some')
                if not (returns_pop or (r[0] == 'agg' and r[2] == 'Some' and r[3][0] == pay)):
                    ctx.violate(key, p, '%s does not return the removed entry' % name)
                if wrs:
                    ctx.violate(key, p, '%s flips the kind flag although the list was not empty' % name)
            else:
                kinds.add('none')
                if not (returns_pop or (r[0] == 'agg' and r[2] == 'None')):
                    ctx.violate(key, p, '%s returns something although the list is empty' % name)
                if len(wrs) != 1 or wrs[0].data['field'] != 'recv_blocking' or not is_const(wrs[0].data['val'], flip):
                    ctx.violate(key, p, '%s must set recv_blocking=%s when it finds the list empty' % (name, 'true' if flip == '1' else 'false'))
        if kinds != {'wrong-kind', 'some', 'none'}:
            ctx.violate(key, None, '%s lacks one of its three cases (other kind / entry / empty): %s' % (name, sorted(kinds)), sig='cases')


@rule('H3', ['C02', 'C18'], 'push_send / push_recv: exactly one insertion of the argument')
def h3(ctx):
    for name in ('push_send', 'push_recv'):
        key = CIK + name
        b = getbody(ctx, key)
        if b is None:
            continue
        ctx.instance(key)
        for p, evs in ret_paths(ctx, b):
            ctx.oblige(1, sample='%s: one push of arg2' % name)
            muts = wl_mutators(evs)
            ins = [e for e in muts if e.name in ('WL.push_back', 'WL.push_front')]
            if len(muts) != 1 or len(ins) != 1 or ins[0].data['args'][0] != ('param', 2):
                ctx.violate(key, p, '%s must insert its argument exactly once and do nothing else to the wait list' % name)
            if any(e.name in ('WR',) or e.name.startswith('Q.') for e in evs):
                ctx.violate(key, p, '%s changes other channel state' % name)


def iter_item_parts(evs):
    """map result of Iterator::next -> (index value, entry value) for enumerate() items, or (None, entry)"""
    out = {}
    for e in evs:
        if e.name == 'CALL' and e.data['callee'] == 'std::iter::Iterator::next':
            res = e.data['res']
            pay = ('field', ('downcast', res, 'Some'), '0')
            out[res] = pay
    return out


def scan_covers_list(evs):
    """None if every explicit scan loop on the path runs over the whole wait list, else a reason.  Accepted sources of the loop's
    iterator: `wait_list.iter()` [`.enumerate()`], and `wait_list.iter().enumerate().skip(1)` when the head was compared
    separately through `wait_list.front()` before."""
    from mir import ci_field_ref
    front_checked = False
    for e in evs:
        if e.name == 'BR' and e.data['label'] == 'cmp_eq':
            v = e.data['val']
            ent = v[3][0] if v[0] == 'call' and v[3] else None
            while ent is not None and ent[0] in ('ref', 'rawptr') and len(ent) > 2 and ent[2] is not None:
                ent = ent[2]
            if ent is not None and ent[0] == 'field' and ent[1][0] == 'downcast' and ent[1][1][0] == 'call' \
                    and ent[1][1][2] == 'std::collections::VecDeque::front' and ci_field_ref(ent[1][1][3][0]) == 'wait_list':
                front_checked = True
        if e.name == 'CALL' and e.data['callee'] == 'std::iter::Iterator::next':
            r = e.data['args'][0]
            it = r[2] if r[0] in ('ref', 'rawptr') and len(r) > 2 else None
            if it is None:
                continue
            for _ in range(6):
                if it[0] == 'call' and it[2] in ('std::iter::IntoIterator::into_iter', 'std::iter::Iterator::enumerate') and it[3]:
                    it = it[3][0]
                    continue
                if it[0] == 'call' and it[2] == 'std::iter::Iterator::skip' and len(it[3]) == 2:
                    n = it[3][1]
                    if not (n[0] == 'const' and str(n[2]) == '1' and front_checked):
                        return 'the scan skips entries that were not compared before'
                    it = it[3][0]
                    continue
                break
            if it[0] == 'call' and it[2] == 'std::collections::VecDeque::iter' and it[3] and ci_field_ref(it[3][0]) == 'wait_list':
                continue
            if it[0] == 'call' and it[2] in ('std::iter::Iterator::take', 'std::iter::Iterator::skip', 'std::iter::Iterator::step_by',
                                            'std::iter::Iterator::filter', 'std::iter::Iterator::take_while', 'std::iter::Iterator::skip_while'):
                return 'the scan runs over %s(..) of the wait list, not over all of it' % it[2].split('::')[-1]
    return None


def scan_helper(ctx, key, name, want_flag, mutating):
    b = getbody(ctx, key)
    if b is None:
        return
    ctx.instance(key)
    saw_true = saw_false = False
    for p, evs in ret_paths(ctx, b):
        ctx.oblige(1, sample='%s [%s] -> %s' % (name, p.signature(), fmt(p.ret)))
        r = p.ret
        if r is not None and r[0] == 'call' and r[2] == 'std::option::Option::is_some' and r[3] and not mutating:
            # `flag && wait_list.iter().position(|s| s.eq(sig)).is_some()`: same as any()
            inner = r[3][0]
            if inner[0] in ('ref', 'rawptr') and len(inner) > 2 and inner[2] is not None:
                inner = inner[2]
            if inner[0] == 'call' and inner[2] == 'std::iter::Iterator::position':
                r = ('call', inner[1], 'std::iter::Iterator::any', inner[3])
        if r is not None and r[0] == 'call' and r[2] == 'std::iter::Iterator::any' and not mutating:
            # `flag && wait_list.iter().any(|s| s.eq(sig))` returned directly
            from mir import ci_field_ref
            a = r[3]
            src = a[0]
            if src[0] in ('ref', 'rawptr') and len(src) > 2 and src[2] is not None:
                src = src[2]
            ok_src = src[0] == 'call' and src[2] == 'std::collections::VecDeque::iter' and ci_field_ref(src[3][0]) == 'wait_list'
            clo = a[1] if len(a) > 1 else None
            ok_clo = clo is not None and clo[0] == 'agg' and clo[1] == 'closure' and closure_is_eq_sig(ctx, clo)
            if not (ok_src and ok_clo):
                ctx.violate(key, p, '%s: the search is not `wait_list.iter().any(|s| s.eq(sig))` over the whole list' % name)
            if wl_mutators(evs):
                ctx.violate(key, p, '%s mutates the wait list' % name)
            if not kind_flag_ok(evs, want_flag):
                ctx.violate(key, p, '%s looks at the wait list under the wrong kind flag' % name)
            saw_true = saw_false = True
            continue
        if r is not None and r[0] == 'call' and r[2] == 'std::option::Option::is_some' and r[3] and mutating:
            # `position(..).and_then(|i| wait_list.remove(i)).is_some()`: on the path where the position was found, remove(i)
            # of a valid index yields Some
            inner = r[3][0]
            if inner[0] in ('ref', 'rawptr') and len(inner) > 2 and inner[2] is not None:
                inner = inner[2]
            from mir import ci_field_ref as _cfr
            if inner[0] == 'call' and inner[2] == 'std::collections::VecDeque::remove' and inner[3] and _cfr(inner[3][0]) == 'wait_list' \
                    and any(e.name == 'BR' and e.data['label'] == 'discr:std::iter::Iterator::position' and e.data['outcome'] == 'Some' for e in evs):
                r = ('const', 'bool', '1')
        if not (r is not None and r[0] == 'const' and r[1] == 'bool'):
            ctx.violate(key, p, '%s returns a non-constant: %s' % (name, fmt(r)))
            continue
        truth = r[2] == '1'
        muts = wl_mutators(evs)
        lb = labels(evs)
        wl_events = [e for e in evs if e.name.startswith('WL.')]
        if wl_events and not kind_flag_ok(evs, want_flag):
            ctx.violate(key, p, '%s looks at the wait list under the wrong kind flag' % name)
        if any(e.name == 'WR' or e.name.startswith('Q.') for e in evs):
            ctx.violate(key, p, '%s changes other channel state' % name)
        eqs = [e for e in evs if e.name == 'CALL' and e.data['callee'] == 'std::cmp::PartialEq::eq']
        for q in eqs:
            a = q.data['args']
            if len(a) < 2 or a[1] != ('param', 2):
                ctx.violate(key, p, '%s compares entries with something other than its signal argument' % name, at=q.at)
        eqbr = [e for e in evs if e.name == 'BR' and e.data['label'] == 'cmp_eq']
        why = scan_covers_list(evs)
        if why:
            ctx.violate(key, p, '%s: %s' % (name, why))
        posbr = [e for e in evs if e.name == 'BR' and e.data['label'] == 'discr:std::iter::Iterator::position']
        anybr = [e for e in evs if e.name == 'BR' and e.data['label'] == 'discr:std::iter::Iterator::any']
        findbr = [e for e in evs if e.name == 'BR' and e.data['label'] == 'discr:std::iter::Iterator::find']
        if not posbr and findbr:
            posbr = findbr  # `iter().enumerate().find(|(_, s)| s.eq(sig))`: position() spelled with find over enumerate
        SEARCH = ('std::iter::Iterator::position', 'std::iter::Iterator::any', 'std::iter::Iterator::find')
        if posbr or any(e.name == 'CALL' and e.data['callee'] in SEARCH for e in evs):
            # alternative idiom: wait_list.iter().position(|s| s.eq(sig)) -> Some(i) => remove(i)
            pc = [e for e in evs if e.name == 'CALL' and e.data['callee'] in SEARCH]
            ok_src = False
            is_find = len(pc) == 1 and pc[0].data['callee'].endswith('::find')
            if len(pc) == 1:
                a = pc[0].data['args']
                src = a[0]
                if src[0] in ('ref', 'rawptr') and len(src) > 2 and src[2] is not None:
                    src = src[2]
                if is_find and src[0] == 'call' and src[2] == 'std::iter::Iterator::enumerate' and src[3]:
                    src = src[3][0]  # find over enumerate(): the index travels with the entry
                elif is_find:
                    src = ('none',)
                from mir import ci_field_ref
                ok_src = src[0] == 'call' and src[2] == 'std::collections::VecDeque::iter' and ci_field_ref(src[3][0]) == 'wait_list'
                clo = a[1] if len(a) > 1 else None
                ok_clo = clo is not None and clo[0] == 'agg' and clo[1] == 'closure' and closure_is_eq_sig(ctx, clo)
            if not (len(pc) == 1 and ok_src and ok_clo):
                ctx.violate(key, p, '%s: the search is not `wait_list.iter().position/any(|s| s.eq(sig))` over the whole list' % name)
                continue
            if pc[0].data['callee'].endswith('::any'):
                found = truth  # the boolean result is returned / branched on directly
                if mutating:
                    ctx.violate(key, p, '%s uses any() but must know the position to remove' % name)
                if muts:
                    ctx.violate(key, p, '%s mutates the wait list' % name)
                if truth:
                    saw_true = True
                else:
                    saw_false = True
                continue
            found = bool(posbr) and posbr[-1].data['outcome'] == 'Some'
            if truth != found:
                ctx.violate(key, p, '%s returns %s although the entry was %sfound' % (name, truth, '' if found else 'not '))
            if truth and mutating:
                rem = [e for e in muts if e.name == 'WL.remove']
                pay = ('field', ('downcast', pc[0].data['res'], 'Some'), '0')
                if is_find:
                    pay = ('field', pay, '0')  # the index half of the (index, entry) pair that was found
                if len(muts) != 1 or len(rem) != 1 or not rem[0].data['args'] or rem[0].data['args'][0] != pay:
                    ctx.violate(key, p, '%s must remove exactly the found position with the order-preserving remove(i) (mutators: %s)' % (name, [m.name for m in muts]))
            elif muts:
                ctx.violate(key, p, '%s mutates the wait list (%s) on a path that %s' % (name, muts[0].name, 'only looks up' if not mutating else 'returns false'))
            if truth:
                saw_true = True
            else:
                saw_false = True
            continue
        if truth:
            saw_true = True
            if not eqbr or eqbr[-1].data['outcome'] != 'T':
                ctx.violate(key, p, '%s returns true without having found an entry equal to the signal' % name)
            front_hit = False
            if mutating and eqbr and len(muts) == 1 and muts[0].name == 'WL.pop_front' and muts[0].idx > eqbr[-1].idx:
                # `if wait_list.front() == sig { wait_list.pop_front() }`: the entry that compared equal IS the head, and taking the
                # head off keeps the order of the others
                v_ = eqbr[-1].data['val']
                ent_ = v_[3][0] if v_[0] == 'call' and v_[3] else None
                from mir import ci_field_ref as _cfr2
                if ent_ is not None and ent_[0] == 'field' and ent_[1][0] == 'downcast' and ent_[1][1][0] == 'call' \
                        and ent_[1][1][2] == 'std::collections::VecDeque::front' and _cfr2(ent_[1][1][3][0]) == 'wait_list' \
                        and not any(e.name.startswith('WL.') and e.name not in ('WL.front', 'WL.len', 'WL.is_empty') and eqbr[-1].idx > e.idx > 0
                                    and e.idx > [x for x in evs if x.name == 'WL.front'][-1].idx for e in evs):
                    front_hit = True
            if mutating and front_hit:
                pass
            elif mutating:
                rem = [e for e in muts if e.name == 'WL.remove']
                if len(muts) != 1 or len(rem) != 1:
                    ctx.violate(key, p, '%s returns true but the entry was removed %d times with order-preserving remove(i) (mutators: %s)' % (
                        name, len(rem), [m.name for m in muts]))
                elif eqbr:
                    # the removed index must belong to the entry that compared equal
                    idxv = rem[0].data['args'][0] if rem[0].data['args'] else None
                    eqcall = eqbr[-1].data['val']
                    ent = eqcall[3][0] if eqcall[0] == 'call' else None
                    if ent is not None and ent[0] == 'ref' and len(ent) > 2 and ent[1][0] == 'local' and ent[2] is not None:
                        ent = ent[2]   # `x == sig` on two references: `&&A` one level up (see sem.project_raw)
                    item = None
                    if ent is not None and ent[0] == 'field' and ent[2] == '1':
                        item = ent[1]
                    indexed = False
                    if ent is not None and idxv is not None and rem[0].idx > eqbr[-1].idx:
                        # index-based scan: `wait_list[i].eq(sig)` ... `wait_list.remove(i)` with the same i
                        e0 = ent
                        if e0[0] == 'call' and e0[2] in ('std::ops::Index::index', 'std::collections::VecDeque::get') and len(e0[3]) == 2:
                            from mir import ci_field_ref as _cfr
                            if _cfr(e0[3][0]) == 'wait_list' and e0[3][1] == idxv:
                                indexed = True
                    if indexed:
                        pass
                    elif not (idxv is not None and idxv[0] == 'field' and idxv[2] == '0' and idxv[1] == item and rem[0].idx > eqbr[-1].idx):
                        ctx.violate(key, p, '%s removes an index that is not the position of the matching entry: %s' % (name, fmt(idxv)), at=rem[0].at)
                    elif not enumerate_of_plain_iter(item):
                        ctx.violate(key, p, '%s: the removed index comes from an iterator that is not exactly wait_list.iter().enumerate() (with rev/skip/filter in between the index is not the position in the list: another waiter is removed, the caller\'s entry stays)' % name, at=rem[0].at)
            else:
                if muts:
                    ctx.violate(key, p, '%s mutates the wait list' % name)
        else:
            saw_false = True
            if muts:
                ctx.violate(key, p, '%s returns false after mutating the wait list (%s)' % (name, muts[0].name))
            if eqbr and eqbr[-1].data['outcome'] == 'T':
                ctx.violate(key, p, '%s returns false although an entry matched' % name)
    if not (saw_true and saw_false):
        ctx.violate(key, None, '%s cannot return both true and false' % name, sig='cases')


def closure_is_eq_sig(ctx, clo):
    """closure `|s| s.eq(sig)` capturing the helper's signal argument (param 2 of the enclosing function)"""
    name = clo[2]
    b = ctx.facts.bodies.get(name)
    if b is None:
        return False
    caps = clo[3]
    if not caps or not any(c == ('param', 2) or (c[0] in ('ref', 'rawptr') and len(c) > 2 and c[2] == ('param', 2)) for c in caps):
        return False
    ps = b.paths(1) or []
    rets = [p for p in ps if p.end == 'return']
    if len(rets) != 1:
        return False
    r = rets[0].ret
    if not (r is not None and r[0] == 'call' and r[2] == 'std::cmp::PartialEq::eq' and len(r[3]) == 2):
        return False
    # one side is the element (closure arg 2), the other is loaded from the closure environment (arg 1)
    sides = [contains(x, ('param', 2)) for x in r[3]] + [contains(x, ('param', 1)) for x in r[3]]
    return (sides[0] and sides[3]) or (sides[1] and sides[2])


def closure_terminates_arg(ctx, clo):
    """closure `|t| t.terminate()`: exactly one SignalTerminator::terminate, applied to its argument, nothing else"""
    b = ctx.facts.bodies.get(clo[2])
    if b is None:
        return False
    ps = b.paths(1) or []
    rets = [p for p in ps if p.end == 'return']
    if len(rets) != 1 or len(ps) != len(rets):
        return False
    import sem as _sem
    evs = _sem.project(rets[0])
    terms = [e for e in evs if e.name == 'SIGTERM']
    if len(terms) != 1:
        return False
    a0 = terms[0].data['args'][0] if terms[0].data['args'] else None
    if a0 is None or not contains(a0, ('param', 2)):
        return False
    return not any(e.name in ('WR', 'SIGSEND', 'SIGRECV') or e.name.startswith(('Q.', 'WL.')) for e in evs)


def enumerate_of_plain_iter(item):
    """item = payload of next(&mut it) where it = [into_iter(] enumerate( VecDeque::iter(&wait_list) ) [)]"""
    # item = ('field', ('downcast', nextcall, 'Some'), '0')
    try:
        nextcall = item[1][1]
        r = nextcall[3][0]
        it = r[2] if r[0] in ('ref', 'rawptr') and len(r) > 2 else None
        if it is None:
            return False
        if it[0] == 'call' and it[2] == 'std::iter::IntoIterator::into_iter':
            it = it[3][0]
        if it[0] == 'call' and it[2] == 'std::iter::Iterator::skip' and len(it[3]) == 2:
            # `iter().enumerate().skip(n)`: skipping AFTER enumerate keeps the absolute positions (scan_covers_list decides whether
            # the skipped head was looked at separately)
            it = it[3][0]
        if not (it[0] == 'call' and it[2] == 'std::iter::Iterator::enumerate'):
            return False
        src = it[3][0]
        if not (src[0] == 'call' and src[2] == 'std::collections::VecDeque::iter'):
            return False
        from mir import ci_field_ref
        return ci_field_ref(src[3][0]) == 'wait_list'
    except (IndexError, TypeError):
        return False


@rule('H4', ['C13', 'C07', 'C02', 'C15', 'C01'], 'cancel_*_signal: true iff exactly one order-preserving removal of the matching entry, false without mutation')
def h4(ctx):
    scan_helper(ctx, CIK + 'cancel_send_signal', 'cancel_send_signal', 'F', True)
    scan_helper(ctx, CIK + 'cancel_recv_signal', 'cancel_recv_signal', 'T', True)


@rule('H5', ['C16', 'C07'], '*_signal_exists: read-only scan under the matching kind flag', needs_async=True)
def h5(ctx):
    scan_helper(ctx, CIK + 'send_signal_exists', 'send_signal_exists', 'F', False)
    scan_helper(ctx, CIK + 'recv_signal_exists', 'recv_signal_exists', 'T', False)


@rule('H6', ['C01', 'C06', 'C10', 'C11'], 'terminate_signals: terminate every entry once, then clear the list on every path')
def h6(ctx):
    key = CIK + 'terminate_signals'
    b = getbody(ctx, key)
    if b is None:
        return
    ctx.instance(key)
    some_term = False
    for p, evs in ret_paths(ctx, b):
        ctx.oblige(1, sample='terminate_signals [%s]' % p.signature())
        muts = wl_mutators(evs)
        if muts and all(m.name in ('WL.pop_front', 'WL.pop_back') for m in muts):
            # alternative idiom: while let Some(t) = wait_list.pop_front() { t.terminate() }
            terms = [e for e in evs if e.name == 'SIGTERM']
            somes = []
            for m_ in muts:
                got = [x for x in evs if x.name == 'BR' and x.data['label'] in ('pop', 'pop_back') and x.idx > m_.idx]
                if got and got[0].data['outcome'] == 'Some':
                    somes.append(m_)
            lastbr = [e for e in evs if e.name == 'BR' and e.data['label'] in ('pop', 'pop_back')]
            if not lastbr or lastbr[-1].data['outcome'] != 'None':
                ctx.violate(key, p, 'terminate_signals leaves the pop loop before the list is empty')
            if len(terms) != len(somes):
                ctx.violate(key, p, '%d entries removed but %d terminated' % (len(somes), len(terms)))
            for m_, t_ in zip(somes, terms):
                some_term = True
                pay = ('field', ('downcast', m_.data['res'], 'Some'), '0')
                a0 = t_.data['args'][0]
                if a0 != pay and not (a0[0] in ('ref', 'rawptr') and len(a0) > 2 and a0[2] == pay):
                    ctx.violate(key, p, 'terminate() applied to something other than the removed entry', at=t_.at)
            if any(e.name == 'WR' or e.name.startswith('Q.') for e in evs):
                ctx.violate(key, p, 'terminate_signals changes other channel state')
            continue
        fe = [e for e in evs if e.name == 'CALL' and e.data['callee'] == 'std::iter::Iterator::for_each']
        if [m.name for m in muts] == ['WL.drain_all']:
            # `for t in wait_list.drain(..) { t.terminate() }` or `wait_list.drain(..).for_each(|t| t.terminate())`: every entry
            # leaves the list; each one must be terminated (an entry the loop skips is dropped un-woken by the Drain)
            dv = muts[0].data['res']
            if any(e.name == 'WR' or e.name.startswith('Q.') for e in evs):
                ctx.violate(key, p, 'terminate_signals changes other channel state')
            if fe:
                a = fe[0].data['args']
                src = a[0] if a else None
                if src is not None and src[0] in ('ref', 'rawptr') and len(src) > 2 and src[2] is not None:
                    src = src[2]
                clo = a[1] if len(a) > 1 else None
                if len(fe) == 1 and src == dv and clo is not None and clo[0] == 'agg' and clo[1] == 'closure' and closure_terminates_arg(ctx, clo):
                    some_term = True
                else:
                    ctx.violate(key, p, 'terminate_signals: drain(..).for_each is not given `|t| t.terminate()` on the drained list')
                continue
            nexts = [e for e in evs if e.name == 'CALL' and e.data['callee'] == 'std::iter::Iterator::next' and contains(e.data['args'], dv)]
            terms = [e for e in evs if e.name == 'SIGTERM']
            somes = []
            for n in nexts:
                got = [x for x in evs if x.name == 'BR' and x.data['label'] == 'iter_next' and x.idx > n.idx]
                if got and got[0].data['outcome'] == 'Some':
                    somes.append(n)
            lastbr = [e for e in evs if e.name == 'BR' and e.data['label'] == 'iter_next']
            if not nexts or not lastbr or lastbr[-1].data['outcome'] != 'None':
                ctx.violate(key, p, 'the drained wait list is not iterated to its end (entries would be dropped without being woken)')
            if len(terms) != len(somes):
                ctx.violate(key, p, '%d entries drained but %d terminated' % (len(somes), len(terms)))
            for n, t_ in zip(somes, terms):
                some_term = True
                pay = ('field', ('downcast', n.data['res'], 'Some'), '0')
                a0 = t_.data['args'][0]
                if a0 != pay and not (a0[0] in ('ref', 'rawptr') and len(a0) > 2 and a0[2] == pay):
                    ctx.violate(key, p, 'terminate() applied to something other than the drained entry', at=t_.at)
            continue
        if fe and [m.name for m in muts] == ['WL.clear']:
            # `wait_list.iter().for_each(|t| t.terminate()); wait_list.clear()`
            a = fe[0].data['args']
            src = a[0] if a else None
            if src is not None and src[0] in ('ref', 'rawptr') and len(src) > 2 and src[2] is not None:
                src = src[2]
            from mir import ci_field_ref
            ok_src = src is not None and src[0] == 'call' and src[2] == 'std::collections::VecDeque::iter' and ci_field_ref(src[3][0]) == 'wait_list'
            clo = a[1] if len(a) > 1 else None
            if len(fe) == 1 and ok_src and clo is not None and clo[0] == 'agg' and clo[1] == 'closure' and closure_terminates_arg(ctx, clo) and fe[0].idx < muts[0].idx \
                    and not any(e.name == 'WR' or e.name.startswith('Q.') for e in evs):
                some_term = True
                continue
            ctx.violate(key, p, 'terminate_signals: for_each is not `wait_list.iter().for_each(|t| t.terminate())` followed by clear()')
            continue
        if [m.name for m in muts] != ['WL.clear']:
            ctx.violate(key, p, 'terminate_signals must end with exactly one wait_list.clear() (mutators: %s): a terminated waiter left in the list would be touched again' % [m.name for m in muts])
        its = [e for e in evs if e.name == 'WL.iter']
        if len(its) != 1:
            ctx.violate(key, p, 'terminate_signals does not iterate the wait list exactly once')
        nexts = [e for e in evs if e.name == 'CALL' and e.data['callee'] == 'std::iter::Iterator::next']
        terms = [e for e in evs if e.name == 'SIGTERM']
        somes = []
        for n in nexts:
            got = [x for x in evs if x.name == 'BR' and x.data['label'] == 'iter_next' and x.idx > n.idx]
            if got and got[0].data['outcome'] == 'Some':
                somes.append(n)
        if len(terms) != len(somes):
            ctx.violate(key, p, '%d entries visited but %d terminated' % (len(somes), len(terms)))
        for n, t in zip(somes, terms):
            some_term = True
            pay = ('field', ('downcast', n.data['res'], 'Some'), '0')
            if t.data['args'][0] != pay:
                ctx.violate(key, p, 'terminate() applied to something other than the visited entry', at=t.at)
        lastbr = [e for e in evs if e.name == 'BR' and e.data['label'] == 'iter_next']
        if not lastbr or lastbr[-1].data['outcome'] != 'None':
            ctx.violate(key, p, 'iteration is left before the end of the list')
        if muts and terms and muts[-1].idx < terms[-1].idx:
            ctx.violate(key, p, 'list cleared before all entries were terminated')
        if any(e.name == 'WR' or e.name.startswith('Q.') for e in evs):
            ctx.violate(key, p, 'terminate_signals changes other channel state')
    if not some_term:
        ctx.violate(key, None, 'no path terminates an entry', sig='no-term')


@rule('H7', ['C01', 'C07'], 'SignalTerminator is a move-only capability built only by From<*const Signal>; eq compares addresses')
def h7(ctx):
    for im in ctx.facts.impls:
        if im.get('of_trait') and im['self_ty'].startswith('signal::SignalTerminator<') and im.get('trait') in ('std::clone::Clone', 'std::marker::Copy'):
            ctx.violate('signal::SignalTerminator', None, 'SignalTerminator implements %s: a waiter could be completed twice' % im['trait'], at=im.get('span'), sig='clone')
    ctx.oblige(1, sample='no Clone/Copy impl for SignalTerminator')
    for m in ('send', 'recv'):
        key = 'signal::SignalTerminator::<T>::' + m
        b = getbody(ctx, key)
        if b is None:
            continue
        ctx.instance(key)
        ctx.oblige(1, sample='%s takes self by value' % key)
        if b.locals[1]['ty'] != 'signal::SignalTerminator<T>':
            ctx.violate(key, None, '%s does not consume the terminator (self type %s)' % (m, b.locals[1]['ty']), sig='self-by-ref')
        want = 'signal::Signal::' + m
        for p, evs in ret_paths(ctx, b):
            calls = [e for e in p.events if e.kind == 'call']
            if ctx.body('signal::Signal::<T>::' + m) is None and any(c.name == 'signal::Signal::wake' for c in calls):
                continue  # Signal::send/recv merged into this method: G3 checks the transfer-then-wake order here
            if len(calls) != 1 or calls[0].name != want:
                ctx.violate(key, p, '%s is not a plain forward to Signal::%s' % (key, m))
            else:
                a = calls[0].args
                if a[0] != ('field', ('param', 1), '0'):
                    ctx.violate(key, p, '%s forwards a pointer other than its own' % key)
    key = 'signal::SignalTerminator::<T>::terminate'
    b = getbody(ctx, key)
    if b is not None:
        ctx.instance(key)
        for p, evs in ret_paths(ctx, b):
            ctx.oblige(1)
            calls = [e for e in p.events if e.kind == 'call']
            if ctx.body('signal::Signal::<T>::terminate') is None and any(c.name == 'signal::Signal::wake' for c in calls):
                continue
            if len(calls) != 1 or calls[0].name != 'signal::Signal::terminate':
                ctx.violate(key, p, 'SignalTerminator::terminate is not a plain forward to Signal::terminate')
    # construction sites
    allowed = {'<signal::SignalTerminator<T> as std::convert::From<*const signal::Signal<T>>>::from', 'signal::Signal::<T>::get_terminator'}
    n = 0
    for k, bd in ctx.facts.bodies.items():
        for blk in bd.blocks:
            for s in blk['stmts']:
                if s['k'] == 'assign' and s['rv']['k'] == 'agg' and s['rv'].get('ak') == 'adt' and canon(s['rv']['name']) == 'signal::SignalTerminator':
                    n += 1
                    ctx.instance('%s builds SignalTerminator' % k)
                    ctx.oblige(1)
                    if not fam.allowed_for(ctx, k, allowed):
                        ctx.violate(k, None, 'SignalTerminator constructed outside From<*const Signal> / get_terminator', at=s.get('at'), sig='construct')
    key = 'signal::Signal::<T>::get_terminator'
    b = getbody(ctx, key)
    if b is not None:
        ctx.instance(key)
        for p, evs in ret_paths(ctx, b):
            ctx.oblige(1, sample='get_terminator returns From::from(self as *const Signal)')
            r = p.ret
            ok = r is not None and r[0] == 'call' and r[2] in ('std::convert::Into::into', 'std::convert::From::from') and contains(r[3][0], ('param', 1))
            if r is not None and r[0] == 'agg' and r[1] == 'signal::SignalTerminator' and len(r[3]) == 1 and contains(r[3][0], ('param', 1)):
                ok = True  # built directly: SignalTerminator(self as *const _)
            if not ok:
                ctx.violate(key, p, 'get_terminator does not wrap the address of self: %s' % fmt(r))
    key = '<signal::SignalTerminator<T> as std::cmp::PartialEq<signal::Signal<T>>>::eq'
    b = getbody(ctx, key)
    if b is not None:
        ctx.instance(key)
        for p, evs in ret_paths(ctx, b):
            ctx.oblige(1, sample='eq compares addresses: %s' % fmt(p.ret))
            r = p.ret
            ok = r is not None and r[0] == 'bin' and r[1] == 'Eq' and contains(r, ('param', 1)) and contains(r, ('param', 2)) and not any(e.kind == 'call' for e in p.events)
            if r is not None and r[0] == 'call' and r[2] == 'std::ptr::eq' and len(r[3]) == 2 and contains(r[3][0], ('param', 1)) and contains(r[3][1], ('param', 2)) \
                    and [e.name for e in p.events if e.kind == 'call'] == ['std::ptr::eq']:
                ok = True  # core::ptr::eq(self.0, other): the same comparison of the two addresses
            if not ok:
                ctx.violate(key, p, 'eq is not a pure address comparison: %s' % fmt(r))


def mentions_fields(b, names):
    import json as _j
    for blk in b.blocks:
        s = _j.dumps(blk)
        for n in names:
            if '"f": "%s"' % n in s:
                return True
    return False


INSERT = {'push_back': 'back', 'push_front': 'front'}
REMOVE = {'pop_front': 'front', 'pop_back': 'back', 'drain_all': 'front', 'drain_senders': 'front'}  # drain_all: the whole buffer, oldest first
ORDER_PRESERVING = {'remove', 'clear', 'retain', 'truncate', 'drain_all'}
READONLY = {'len', 'is_empty', 'iter', 'capacity', 'front', 'back', 'get', 'contains', 'as_slices', 'exhausted'}


@rule('Q1', ['C02', 'C19', 'C08'], 'end discipline of the buffer and the wait list: insert at one end, remove at the other, only order-preserving removals')
def q1(ctx):
    sites = {}  # (which, method) -> set of (body, bb)
    for key, b in ctx.facts.bodies.items():
        if not any(n.startswith('std::collections::VecDeque::') for n in b.callee_names()) and not mentions_fields(b, ('queue', 'wait_list')):
            continue
        ps = ctx.paths(b)
        if ps is None:
            continue
        for p in ps:
            for e in ctx.sem(p):
                if e.name.startswith('Q.') or e.name.startswith('WL.'):
                    which, m = e.name.split('.', 1)
                    sites.setdefault((which, m), set()).add((key, e.raw.bb, e.at))
                elif e.name == 'CALL':
                    for a in e.data['args']:
                        f = None
                        from mir import ci_field_ref
                        f = ci_field_ref(a) if isinstance(a, tuple) else None
                        if f in ('queue', 'wait_list') and e.data['callee'] not in ('std::iter::Iterator::enumerate', 'std::ops::Index::index'):
                            sites.setdefault(('Q' if f == 'queue' else 'WL', 'ESCAPE:' + e.data['callee']), set()).add((key, e.raw.bb, e.at))
    for which in ('Q', 'WL'):
        ins = set()
        rem = set()
        for (w, m), ss in sorted(sites.items()):
            if w != which:
                continue
            for (k, bb, at) in ss:
                ctx.oblige(1)
                ctx.instance('%s.%s in %s' % (which, m, k))
            if m in INSERT:
                ins.add(INSERT[m])
            elif m in REMOVE:
                rem.add(REMOVE[m])
            elif m in ORDER_PRESERVING or m in READONLY or m in ('with_capacity', 'new'):
                pass
            else:
                for (k, bb, at) in sorted(ss, key=str):
                    ctx.violate(k, None, 'unrecognised mutator %s applied to %s (FIFO order not guaranteed)' % (m, 'queue' if which == 'Q' else 'wait_list'), at=at, sig='%s.%s' % (which, m))
        nm = 'queue' if which == 'Q' else 'wait_list'
        if len(ins) != 1 or len(rem) != 1:
            ctx.violate('<crate>', None, '%s is inserted at %s and removed at %s: not one insertion end and one removal end' % (nm, sorted(ins), sorted(rem)), sig='%s-ends' % which)
        elif ins == rem:
            ctx.violate('<crate>', None, '%s is inserted and removed at the same end (%s): LIFO' % (nm, sorted(ins)), sig='%s-lifo' % which)
