#!/bin/sh
# Build the fact-extraction driver (nightly, rustc_private, zero dependencies) - offline.
set -e
cd "$(dirname "$0")"
export CARGO_NET_OFFLINE=true
mkdir -p .build
( cd driver && CARGO_TARGET_DIR=../.build/driver cargo +nightly build --offline --release --quiet )
test -x .build/driver/release/kfacts
if [ -d witness ]; then
  ./witness/prepare.sh
fi
echo "setup ok"
