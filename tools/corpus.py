#!/usr/bin/env python3
"""Checker validation: apply every corpus patch to a scratch copy of /repo and run `kv scan` on it.

  corpus.py [mutants|benign|all] [--jobs N] [--only name]

mutants: each patch must make at least one rule of its `# expect:` line fire (and the property of its
`# property:` line be alarmed).  benign: no rule may fire.  Scratch copies live under $TMPDIR and are removed
immediately.  This is validation of the checker, never part of a property verdict."""
import concurrent.futures
import json
import os
import shutil
import subprocess
import sys
import tempfile

V = os.path.dirname(os.path.dirname(os.path.abspath(__file__)))
REPO = '/repo'


def scratch_copy():
    d = tempfile.mkdtemp(prefix='kvcorpus-')
    for item in ('src', 'Cargo.toml', 'Cargo.lock', 'README.md', 'benches', 'tests'):
        s = os.path.join(REPO, item)
        if os.path.isdir(s):
            shutil.copytree(s, os.path.join(d, item))
        elif os.path.exists(s):
            shutil.copy(s, os.path.join(d, item))
    return d


def run_one(path, compile_check=False):
    name = os.path.basename(path)[:-6]
    meta = {'property': None, 'expect': []}
    for l in open(path):
        if l.startswith('# property:'):
            meta['property'] = l.split(':', 1)[1].strip()
        if l.startswith('# expect:'):
            meta['expect'] = [x.strip() for x in l.split(':', 1)[1].split(',') if x.strip()]
    d = scratch_copy()
    try:
        r = subprocess.run(['patch', '-p1', '-s', '-i', path], cwd=d, stdout=subprocess.PIPE, stderr=subprocess.STDOUT, text=True)
        if r.returncode != 0:
            return name, meta, {'error': 'patch does not apply: ' + r.stdout[-300:]}
        env = dict(os.environ)
        env['KV_REPO'] = d
        r = subprocess.run([os.path.join(V, 'kv'), 'scan', '--json'], env=env, stdout=subprocess.PIPE, stderr=subprocess.PIPE, text=True)
        try:
            j = json.loads(r.stdout)
        except Exception:
            j = {'error': 'scan output unreadable: ' + (r.stdout + r.stderr)[-400:]}
        return name, meta, j
    finally:
        shutil.rmtree(d, ignore_errors=True)


def main():
    which = 'all'
    jobs = 8
    only = None
    a = sys.argv[1:]
    while a:
        x = a.pop(0)
        if x == '--jobs':
            jobs = int(a.pop(0))
        elif x == '--only':
            only = a.pop(0)
        else:
            which = x
    bad = 0
    summary = {}
    for sub in ('mutants', 'benign'):
        if which not in ('all', sub):
            continue
        dirp = os.path.join(V, 'corpus', sub)
        files = sorted(os.path.join(dirp, f) for f in os.listdir(dirp) if f.endswith('.patch'))
        if only:
            files = [f for f in files if only in f]
        with concurrent.futures.ThreadPoolExecutor(max_workers=jobs) as ex:
            res = list(ex.map(run_one, files))
        for name, meta, j in res:
            if 'error' in j:
                print('%-8s %-40s ERROR %s' % (sub, name, j['error'][:200]))
                bad += 1
                continue
            fired = sorted(j['rules'])
            props = sorted(j['properties'])
            if sub == 'mutants':
                ok = bool(set(meta['expect']) & set(fired)) and meta['property'] in props
                print('%-8s %-40s %s fired=%s props=%s' % (sub, name, 'DETECTED' if ok else 'MISSED  ', fired, props))
                if not ok:
                    bad += 1
                summary[name] = {'property': meta['property'], 'expected': meta['expect'], 'fired': fired, 'detected': ok}
            else:
                ok = not fired
                print('%-8s %-40s %s fired=%s' % (sub, name, 'SILENT  ' if ok else 'FALSE-ALARM', fired))
                if not ok:
                    bad += 1
                    for v in j['violations'][:4]:
                        print('           %s %s :: %s' % (v['rule'], v['fn'], v['reason'][:140]))
                summary[name] = {'fired': fired, 'silent': ok}
    out = os.path.join(V, 'corpus', 'last_run.json')
    json.dump(summary, open(out, 'w'), indent=1, sort_keys=True)
    print('corpus: %d problems' % bad)
    return 1 if bad else 0


if __name__ == '__main__':
    sys.exit(main())
