import json,sys,time,os,subprocess
sys.path.insert(0,'/verif/rules')
import mir, sem
F=None
def facts():
    d=json.load(open('/tmp/facts-default.json'))
    return mir.Facts(d,'default')
if __name__=='__main__':
    F=facts()
    k=int(os.environ.get('K','1'))
    for key in sys.argv[1:]:
        b=F.body(key)
        for p in b.paths(k):
            evs=sem.project(p)
            print(p.end, '|', ' '.join(repr(e) for e in evs if e.name not in ('RDMEM',)))
            print('    ret=', mir.fmt(p.ret) if p.ret else None)
