#!/usr/bin/env python3
"""Confirm a seeded breaking change delivered by a sub-agent and record what the checks say about it.

  seedverify.py <worktree> <x> [--name NAME] [--skip-suite]

Steps (all inside the scratch worktree, which is reset to a clean tree first and last):
  1. clean tree: demo passes
  2. patch applied: demo fails; the pinned suite (sync_test, async_test) still passes
  3. `kv scan` on the patched tree (KV_REPO=<worktree>)  ->  which rules / properties fire
If 1-2 hold the change is kept as /verif/seeded/<name>/{patch.diff,demo.rs,meta.json}."""
import json
import os
import shutil
import subprocess
import sys
import time

V = os.path.dirname(os.path.dirname(os.path.abspath(__file__)))


def sh(cmd, cwd, timeout=900, env=None):
    try:
        r = subprocess.run(cmd, cwd=cwd, shell=True, stdout=subprocess.PIPE, stderr=subprocess.STDOUT, text=True, timeout=timeout, env=env)
        return r.returncode, r.stdout
    except subprocess.TimeoutExpired as e:
        return 124, (e.stdout or '') + '\nTIMEOUT'


def clean(wt):
    sh('git checkout -- . && git clean -fdq tests src', wt)


def main():
    a = sys.argv[1:]
    wt = a[0]
    x = a[1]
    name = None
    skip_suite = False
    i = 2
    while i < len(a):
        if a[i] == '--name':
            name = a[i + 1]
            i += 2
        elif a[i] == '--skip-suite':
            skip_suite = True
            i += 1
        else:
            i += 1
    seed = os.path.join(wt, 'SEED')
    patch = os.path.join(seed, 'patch_%s.diff' % x)
    demo = os.path.join(seed, 'demo_%s.rs' % x)
    meta = json.load(open(os.path.join(seed, 'meta_%s.json' % x)))
    prop = meta.get('property', os.path.basename(wt))
    name = name or '%s-%s' % (os.path.basename(wt.rstrip('/')), x)
    clean(wt)
    testname = 'seed_demo_%s' % x
    shutil.copy(demo, os.path.join(wt, 'tests', testname + '.rs'))
    env = dict(os.environ)
    env['CARGO_NET_OFFLINE'] = 'true'
    report = {'ran': []}
    rc, out = sh('timeout 600 cargo test --offline --test %s 2>&1 | tail -15' % testname, wt, env=env)
    ok_clean = 'test result: ok' in out
    report['ran'].append('clean tree: cargo test --offline --test %s -> %s' % (testname, 'pass' if ok_clean else 'FAIL'))
    rc, out2 = sh('git apply %s' % patch, wt)
    if rc != 0:
        print('patch does not apply:', out2)
        clean(wt)
        return 1
    rc, out = sh('timeout 600 cargo test --offline --test %s 2>&1 | tail -25' % testname, wt, env=env)
    fails_patched = 'test result: ok' not in out
    report['ran'].append('patched tree: cargo test --offline --test %s -> %s' % (testname, 'FAILS (as intended)' if fails_patched else 'passes (change not demonstrated)'))
    demo_tail = out[-1500:]
    suite_ok = True
    if not skip_suite:
        os.remove(os.path.join(wt, 'tests', testname + '.rs'))
        rc, out = sh('timeout 900 cargo test --offline --test sync_test --test async_test 2>&1 | grep -E "^test result|FAILED|failed" | head', wt, env=env)
        suite_ok = out.count('test result: ok') >= 2 and 'FAILED' not in out
        report['ran'].append('patched tree: cargo test --offline --test sync_test --test async_test -> %s' % ('83 pass' if suite_ok else 'FAILS: ' + out[-300:]))
    # static checks on the patched tree
    env2 = dict(os.environ)
    env2['KV_REPO'] = wt
    if os.path.exists(os.path.join(wt, 'tests', testname + '.rs')):
        os.remove(os.path.join(wt, 'tests', testname + '.rs'))
    rc, out = sh('%s scan --json' % os.path.join(V, 'kv'), wt, env=env2)
    try:
        scan = json.loads(out)
    except Exception:
        scan = {'error': out[-500:]}
    clean(wt)
    fired = sorted(scan.get('rules', {}))
    props = sorted(scan.get('properties', {}))
    confirmed = ok_clean and fails_patched and suite_ok
    detected = prop in props
    print('%s: confirmed=%s (clean demo pass=%s, patched demo fails=%s, suite ok=%s)  detected=%s rules=%s props=%s' % (
        name, confirmed, ok_clean, fails_patched, suite_ok, detected, fired, props))
    if 'error' in scan:
        print('   scan error:', scan['error'][:400])
    if not confirmed:
        print(demo_tail[-600:])
        return 1
    out_dir = os.path.join(V, 'seeded', name)
    os.makedirs(out_dir, exist_ok=True)
    shutil.copy(patch, os.path.join(out_dir, 'patch.diff'))
    shutil.copy(demo, os.path.join(out_dir, 'demo.rs'))
    meta2 = {
        'property': prop,
        'summary': meta.get('summary'),
        'mechanism': meta.get('mechanism'),
        'needs_to_manifest': meta.get('needs_to_manifest'),
        'source': 'independent sub-agent given only the property text and a scratch worktree',
        'what_i_ran': report['ran'] + ['KV_REPO=<patched worktree> ./kv scan --json'],
        'confirmed': confirmed,
        'checks': {'detected_for_property': detected, 'rules_firing': fired, 'properties_alarmed': props,
                   'violations': [{'rule': v['rule'], 'fn': v['fn'], 'reason': v['reason'][:200]} for v in scan.get('violations', [])[:8]]},
        'date': time.strftime('%Y-%m-%d'),
    }
    json.dump(meta2, open(os.path.join(out_dir, 'meta.json'), 'w'), indent=1)
    return 0


if __name__ == '__main__':
    sys.exit(main())
