#!/usr/bin/env python3
import json, sys, glob, os
try:
    import jsonschema
except ImportError:
    sys.exit('run with python3-vt')
V = os.path.dirname(os.path.dirname(os.path.abspath(__file__)))
jsonschema.validate(json.load(open(V + '/MANIFEST.json')), json.load(open('/root/.vp/MANIFEST.schema.json')))
print('manifest valid')
es = json.load(open('/root/.vp/EVIDENCE.schema.json'))
for f in sorted(glob.glob(V + '/evidence/C*.json')):
    jsonschema.validate(json.load(open(f)), es)
    print('evidence valid', os.path.basename(f))
