#!/usr/bin/env python3
"""Re-run the checks on every kept seeded change (scratch copy of /repo + patch, `kv scan`), refresh the `checks`
block of its meta.json and print the detection table used in DESIGN.md section 10."""
import concurrent.futures
import json
import os
import sys

V = os.path.dirname(os.path.dirname(os.path.abspath(__file__)))
sys.path.insert(0, os.path.join(V, 'tools'))
import corpus


def one(d):
    patch = os.path.join(d, 'patch.diff')
    name, meta, j = corpus.run_one(patch)
    return d, j


def main():
    dirs = sorted(os.path.join(V, 'seeded', x) for x in os.listdir(os.path.join(V, 'seeded')) if os.path.exists(os.path.join(V, 'seeded', x, 'patch.diff')))
    with concurrent.futures.ThreadPoolExecutor(max_workers=8) as ex:
        res = list(ex.map(one, dirs))
    missed = 0
    rows = []
    for d, j in res:
        mp = os.path.join(d, 'meta.json')
        m = json.load(open(mp))
        if 'error' in j:
            print('%-8s ERROR %s' % (os.path.basename(d), j['error'][:200]))
            missed += 1
            continue
        fired = sorted(j['rules'])
        props = sorted(j['properties'])
        det = m['property'] in props
        m['checks'] = {'detected_for_property': det, 'rules_firing': fired, 'properties_alarmed': props,
                       'violations': [{'rule': v['rule'], 'fn': v['fn'], 'reason': v['reason'][:200]} for v in j['violations'][:8]]}
        json.dump(m, open(mp, 'w'), indent=1)
        rows.append((os.path.basename(d), m['property'], det, fired, (m.get('summary') or '')[:110]))
        if not det:
            missed += 1
    for r in rows:
        print('| %s | %s | %s | %s | %s |' % (r[0], r[1], 'yes' if r[2] else '**NO**', ', '.join(r[3]), r[4]))
    print('seeded: %d kept, %d not detected for their property' % (len(rows), missed))
    return 1 if missed else 0


if __name__ == '__main__':
    sys.exit(main())
