#!/usr/bin/env python3
"""Scan behaviour-preserving refactorings delivered by sub-agents (<worktree>/BENIGN/r*.diff): which rules fire?
  benignscan.py <worktree> [--keep]   (--keep copies the silent ones into corpus/benign as ext_<name>_rN.patch)"""
import concurrent.futures, glob, json, os, shutil, sys
V = os.path.dirname(os.path.dirname(os.path.abspath(__file__)))
sys.path.insert(0, os.path.join(V, 'tools'))
import corpus


def main():
    wt = sys.argv[1].rstrip('/')
    keep = '--keep' in sys.argv
    files = sorted(glob.glob(os.path.join(wt, 'BENIGN', 'r*.diff')))
    with concurrent.futures.ThreadPoolExecutor(max_workers=6) as ex:
        res = list(ex.map(corpus.run_one, files))
    tag = os.path.basename(wt)
    for f, (name, meta, j) in zip(files, res):
        name = os.path.basename(f)[:-5]
        if 'error' in j:
            print('%s %s ERROR %s' % (tag, name, j['error'][:300]))
            continue
        fired = sorted(j['rules'])
        print('%s %-4s %s %s' % (tag, name, 'SILENT' if not fired else 'ALARM', fired))
        for v in j['violations'][:6]:
            print('        %s %s [%s] :: %s' % (v['rule'], v['fn'], v['sig'][:50], v['reason'][:170]))
        if keep and not fired:
            txt = f[:-5] + '.txt'
            desc = open(txt).read().strip().split('\n')[0][:200] if os.path.exists(txt) else 'external benign refactoring'
            out = os.path.join(V, 'corpus', 'benign', 'ext_%s_%s.patch' % (tag, name))
            if os.path.exists(out):
                # never overwrite a member of the corpus: another round used the same worktree name
                k = 2
                while os.path.exists(os.path.join(V, 'corpus', 'benign', 'ext_%s_v%d_%s.patch' % (tag, k, name))):
                    k += 1
                out = os.path.join(V, 'corpus', 'benign', 'ext_%s_v%d_%s.patch' % (tag, k, name))
            with open(out, 'w') as fh:
                fh.write('# %s (behaviour-preserving refactoring written by an independent sub-agent)\n' % desc.replace('\n', ' '))
                fh.write(open(f).read())


if __name__ == '__main__':
    main()
