#!/usr/bin/env python3
"""Checker validation: COMPOSITIONS of behaviour-preserving variants.

  pairscan.py [--n 60] [--seed 1] [--jobs 12] [--keep-failing DIR]

Picks pseudo-random pairs (fixed seed) of patches from corpus/benign whose hunks do not collide, applies both to a scratch copy of
/repo and runs `kv scan`.  Two behaviour-preserving changes applied together are behaviour-preserving, so no rule may fire; a
pair that does not apply or does not compile is skipped (reported as such).  This exercises the normalisation layer on
combinations nobody wrote on purpose.  Validation of the checker only, never part of a property verdict."""
import concurrent.futures
import json
import os
import random
import shutil
import subprocess
import sys

sys.path.insert(0, os.path.dirname(os.path.abspath(__file__)))
from corpus import scratch_copy, V  # noqa


def run_pair(a, b):
    d = scratch_copy()
    try:
        for p in (a, b):
            r = subprocess.run(['patch', '-p1', '-s', '-F0', '-i', p], cwd=d, stdout=subprocess.PIPE, stderr=subprocess.STDOUT, text=True)
            if r.returncode != 0:
                return a, b, {'skip': 'does not apply together'}
        env = dict(os.environ)
        env['KV_REPO'] = d
        r = subprocess.run([os.path.join(V, 'kv'), 'scan', '--json'], env=env, stdout=subprocess.PIPE, stderr=subprocess.PIPE, text=True)
        try:
            j = json.loads(r.stdout)
        except Exception:
            txt = (r.stdout + r.stderr)
            if 'error[' in txt or 'could not compile' in txt or 'does not build' in txt:
                return a, b, {'skip': 'does not compile together'}
            return a, b, {'error': txt[-300:]}
        if isinstance(j, dict) and j.get('error') == 'cannot analyse' and 'cargo check failed' in str(j.get('detail')):
            return a, b, {'skip': 'does not compile together'}
        return a, b, j
    finally:
        shutil.rmtree(d, ignore_errors=True)


def mixed(args):
    """a mutant applied together with an unrelated behaviour-preserving variant must still be reported (for its property, by one of
    the rules it names): the normalisation that accepts the variant must not hide the mutant"""
    n, seed, jobs = 60, 1, 12
    for i, x in enumerate(args):
        if x == '--n':
            n = int(args[i + 1])
        if x == '--seed':
            seed = int(args[i + 1])
        if x == '--jobs':
            jobs = int(args[i + 1])
    bd = os.path.join(V, 'corpus', 'benign')
    md = os.path.join(V, 'corpus', 'mutants')
    bn = sorted(f for f in os.listdir(bd) if f.endswith('.patch'))
    mn = sorted(f for f in os.listdir(md) if f.endswith('.patch'))
    rng = random.Random(seed)
    pairs = []
    seen = set()
    while len(pairs) < n:
        m, b = rng.choice(mn), rng.choice(bn)
        if (m, b) in seen:
            continue
        seen.add((m, b))
        pairs.append((os.path.join(md, m), os.path.join(bd, b)))
    sys.path.insert(0, os.path.join(V, 'rules'))
    import propmap
    bad = skipped = ok = 0
    with concurrent.futures.ThreadPoolExecutor(max_workers=jobs) as ex:
        for a, b, j in ex.map(lambda ab: run_pair(*ab), pairs):
            na, nb = os.path.basename(a)[:-6], os.path.basename(b)[:-6]
            if 'skip' in j:
                skipped += 1
                continue
            expect, prop = [], None
            for l in open(a):
                if l.startswith('# expect:'):
                    expect = [x.strip() for x in l.split(':', 1)[1].split(',') if x.strip()]
                if l.startswith('# property:'):
                    prop = l.split(':', 1)[1].strip()
            fired = sorted(j['rules']) if isinstance(j, dict) and 'rules' in j else None
            if fired is None:
                bad += 1
                print('mixed %-34s + %-34s ERROR %s' % (na, nb, str(j)[:200]))
                continue
            props = sorted(j.get('properties') or [])
            if set(expect) & set(fired) and prop in props:
                ok += 1
            else:
                bad += 1
                print('mixed %-34s + %-34s MISSED expect=%s fired=%s' % (na, nb, expect, fired))
    print('mixed: %d still reported, %d skipped, %d problems' % (ok, skipped, bad))
    return 1 if bad else 0


def main():
    n, seed, jobs = 60, 1, 12
    args = sys.argv[1:]
    if '--mixed' in args:
        return mixed(args)
    for i, x in enumerate(args):
        if x == '--n':
            n = int(args[i + 1])
        if x == '--seed':
            seed = int(args[i + 1])
        if x == '--jobs':
            jobs = int(args[i + 1])
    bd = os.path.join(V, 'corpus', 'benign')
    names = sorted(f for f in os.listdir(bd) if f.endswith('.patch'))
    rng = random.Random(seed)
    pairs = []
    seen = set()
    while len(pairs) < n:
        a, b = rng.sample(names, 2)
        if (a, b) in seen or (b, a) in seen:
            continue
        seen.add((a, b))
        pairs.append((os.path.join(bd, a), os.path.join(bd, b)))
    bad = skipped = ok = 0
    with concurrent.futures.ThreadPoolExecutor(max_workers=jobs) as ex:
        for a, b, j in ex.map(lambda ab: run_pair(*ab), pairs):
            na, nb = os.path.basename(a)[:-6], os.path.basename(b)[:-6]
            if 'skip' in j:
                skipped += 1
                print('pair  %-34s + %-34s SKIP (%s)' % (na, nb, j['skip']))
                continue
            fired = sorted(j['rules']) if isinstance(j, dict) and 'rules' in j else None
            if 'error' in j or fired is None:
                bad += 1
                print('pair  %-34s + %-34s ERROR %s' % (na, nb, str(j)[:200]))
            elif fired:
                bad += 1
                print('pair  %-34s + %-34s ALARM %s' % (na, nb, fired))
                for v in (j.get('violations') or [])[:4]:
                    print('        %s %s :: %s' % (v.get('rule'), v.get('fn'), str(v.get('reason'))[:160]))
            else:
                ok += 1
                print('pair  %-34s + %-34s SILENT' % (na, nb))
    print('pairs: %d silent, %d skipped, %d problems' % (ok, skipped, bad))
    return 1 if bad else 0


if __name__ == '__main__':
    sys.exit(main())
