#!/usr/bin/env python3
"""Regenerate MANIFEST.json from the rule registry (claimed = properties served by >= 1 rule)."""
import json, os, sys
V = os.path.dirname(os.path.dirname(os.path.abspath(__file__)))
sys.path.insert(0, os.path.join(V, 'rules'))
sys.argv = ['kv']
import importlib.machinery, importlib.util
loader = importlib.machinery.SourceFileLoader('kv', os.path.join(V, 'kv'))
spec = importlib.util.spec_from_loader('kv', loader)
kv = importlib.util.module_from_spec(spec)
loader.exec_module(kv)
import engine
kv.import_rules()
props = [json.loads(l) for l in open(os.path.join(V, 'properties.jsonl')) if l.strip()]
texts = json.load(open(os.path.join(V, 'tools', 'claims.json')))
checks = []
na = []
for p in props:
    pid = p['id']
    rids = [r for r, rd in engine.RULES.items() if pid in rd.props]
    c = texts.get(pid, {})
    if not rids or c.get('not_applicable'):
        na.append({'property_id': pid, 'reason': c.get('na_reason', 'no static rule built for this property in this revision')})
        continue
    level = 'proof' if pid == 'C20' else 'other'
    checks.append({
        'property_id': pid,
        'quick_cmd': './kv check %s --tier quick' % pid,
        'thorough_cmd': './kv check %s --tier thorough' % pid,
        'evidence_file': 'evidence/%s.json' % pid,
        'replay_cmd_template': './kv explain {path}',
        'engine': 'krules' if pid != 'C20' else 'witness+krules',
        'level_claimed': {
            'category': level,
            'text': c.get('text', 'Decides the structural clauses listed for %s in DESIGN.md section 4 (mechanism conformance on all paths), not the behaviour under schedules.' % pid),
            'design_ref': 'DESIGN.md section 4, row %s; rules %s' % (pid, ','.join(sorted(rids))),
        },
        'level_note': c.get('note', 'Trusted: rustc MIR construction and trait solver; std / lock_api / futures-core semantics by summary; the path/event abstraction of /verif/rules. Decides the structural clauses listed in DESIGN.md section 4, not the behaviour under schedules.'),
        'technique': c.get('technique', 'static analysis: path-sensitive MIR rules (%s)' % ','.join(sorted(rids))),
    })
m = {
    'version': 1,
    'setup_cmd': './setup.sh',
    'hooks': {
        'guard': 'none',
        'enable': 'no source hooks: the analysis reads /repo as it is (cargo +nightly check through the kfacts driver)',
        'baseline_off_cmd': 'cd /repo && cargo nextest run --workspace --no-fail-fast --test-threads 8 --offline || cargo test --workspace --no-fail-fast --offline',
        'source_commits': [],
        'add_only': True,
    },
    'engines': [
        {'name': 'kfacts', 'path': 'driver', 'serves_properties': [c['property_id'] for c in checks], 'kind_free_text': 'rustc_private driver: dumps MIR (opt-level 0), resolved callees, field names, ADT and impl tables of /repo as JSON, 4 feature configurations'},
        {'name': 'krules', 'path': 'rules', 'serves_properties': [c['property_id'] for c in checks], 'kind_free_text': 'path enumeration with drop-flag pruning, per-path def-use, event projection, per-path implications and CFG/call-graph queries'},
        {'name': 'witness', 'path': 'witness', 'serves_properties': ['C20', 'C07'], 'kind_free_text': 'compile-fail / compile-pass witnesses decided by rustc (cargo +nightly test --doc)'},
    ],
    'checks': checks,
    'not_applicable': na,
    'notes': texts.get('_notes', ''),
}
json.dump(m, open(os.path.join(V, 'MANIFEST.json'), 'w'), indent=1)
print('claimed', [c['property_id'] for c in checks]); print('n/a', [x['property_id'] for x in na])
