#!/bin/sh
# usage: mkfacts.sh [config-flags...]  -> ${KFACTS_DBG_OUT:-/tmp/facts-default.json}
T=$(mktemp -d /verif/.build/dbg-XXXX)
cd ${KV_REPO:-/repo} && LD_LIBRARY_PATH=$(rustc +nightly --print sysroot)/lib RUSTFLAGS="-Zmir-opt-level=0 -Cdebug-assertions=off -Awarnings" RUSTC_WORKSPACE_WRAPPER=/verif/.build/driver/release/kfacts KFACTS_OUT=${KFACTS_DBG_OUT:-/tmp/facts-default.json} KFACTS_NONCE=x CARGO_TARGET_DIR=$T cargo +nightly check --offline --lib --quiet "$@"
rm -rf $T
