#!/usr/bin/env python3
"""Rewrite the block between <!-- SEEDED-TABLE-BEGIN --> and <!-- SEEDED-TABLE-END --> in DESIGN.md from seeded/*/meta.json."""
import json, os, re, glob
V = os.path.dirname(os.path.dirname(os.path.abspath(__file__)))
rows = []
for d in sorted(glob.glob(os.path.join(V, 'seeded', 'C*'))):
    m = json.load(open(os.path.join(d, 'meta.json')))
    c = m.get('checks', {})
    s = (m.get('summary') or '').replace('|', '/').replace('\n', ' ')
    if len(s) > 150:
        s = s[:147] + '...'
    rows.append('| `%s` | %s | %s | %s | %s |' % (os.path.basename(d), m['property'], 'yes' if c.get('detected_for_property') else '**no**',
                                               ', '.join(c.get('rules_firing', [])), s))
tbl = ['| seeded change | property | reported for it | rules that fire | what was changed |', '|---|---|---|---|---|'] + rows
p = os.path.join(V, 'DESIGN.md')
t = open(p).read()
b, e = '<!-- SEEDED-TABLE-BEGIN -->', '<!-- SEEDED-TABLE-END -->'
if b in t:
    t = t[:t.index(b) + len(b)] + '\n' + '\n'.join(tbl) + '\n' + t[t.index(e):]
    open(p, 'w').write(t)
print(len(rows), 'rows')
