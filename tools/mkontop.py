#!/usr/bin/env python3
"""Build a mutant on top of an accepted behaviour-preserving variant ("twin"):
  mkontop.py <twin.diff> <name> <property> <expect-rule> <file> <desc>   (old / new text read from $MK_OLD / $MK_NEW)
Writes corpus/mutants/<name>.patch (twin + mutation as one diff against the pinned tree) if it compiles."""
import os, shutil, subprocess, sys, tempfile
V = os.path.dirname(os.path.dirname(os.path.abspath(__file__)))


def main():
    twin, name, prop, expect, f, desc = sys.argv[1:7]
    old, new = os.environ['MK_OLD'], os.environ['MK_NEW']
    d = tempfile.mkdtemp(prefix='mkontop-')
    try:
        subprocess.run('rsync -a --exclude target --exclude .git /repo/ %s/ && cd %s && git init -q . && git add -A >/dev/null && git -c user.email=a@b -c user.name=x commit -qm base' % (d, d), shell=True, check=True)
        src = open(twin).read()
        src = ''.join(l for l in src.splitlines(True) if not l.startswith('# '))
        subprocess.run(['git', 'apply'], input=src, text=True, cwd=d, check=True)
        p = os.path.join(d, f)
        base = open(p).read()
        if old not in base:
            print('old text not found'); return 1
        open(p, 'w').write(base.replace(old, new, 1))
        r = subprocess.run('cargo build --offline 2>&1 | tail -3', cwd=d, shell=True, stdout=subprocess.PIPE, text=True).stdout
        if 'Finished' not in r:
            print('does not compile:', r); return 1
        diff = subprocess.run('git diff HEAD -- src', cwd=d, shell=True, stdout=subprocess.PIPE, text=True).stdout
        open(os.path.join(V, 'corpus', 'mutants', name + '.patch'), 'w').write('# %s\n# property: %s\n# expect: %s\n' % (desc, prop, expect) + diff)
        print('wrote', name)
        return 0
    finally:
        shutil.rmtree(d, ignore_errors=True)


if __name__ == '__main__':
    sys.exit(main())
