#!/usr/bin/env python3
"""Generate /verif/corpus/{mutants,benign}/*.patch from edit specifications against /repo HEAD.

Each spec: (name, property, expected_rules, description, [(file, function_marker, old, new)]).
`function_marker` narrows the search: the first occurrence of `old` AFTER the marker is replaced.
The patches are plain unified diffs (git apply / patch -p1)."""
import difflib
import os
import subprocess
import sys

REPO = os.environ.get('KV_REPO', '/repo')
V = os.path.dirname(os.path.dirname(os.path.abspath(__file__)))

M = []  # mutants
B = []  # benign


def m(name, prop, rules, desc, edits):
    M.append((name, prop, rules, desc, edits))


def b(name, desc, edits):
    B.append((name, None, [], desc, edits))


LIB = 'src/lib.rs'
INT = 'src/internal.rs'
SIG = 'src/signal.rs'
PTR = 'src/pointer.rs'
FUT = 'src/future.rs'
MUT = 'src/mutex.rs'
BK = 'src/backoff.rs'

# ----------------------------------------------------------------------------- mutants
m('h6_terminate_no_clear', 'C01', ['H6'], 'terminate_signals forgets wait_list.clear()',
  [(INT, 'fn terminate_signals', '        self.wait_list.clear();\n', '')])
m('q1_cancel_swap_remove', 'C02', ['Q1', 'H4'], 'cancel_send_signal uses swap_remove_back (reorders blocked senders)',
  [(INT, 'fn cancel_send_signal', 'self.wait_list.remove(i);', 'self.wait_list.swap_remove_back(i);')])
m('r3_no_refill_recv_timeout', 'C02', ['R3'], 'recv_timeout drops the refill of the buffer from the oldest blocked sender',
  [(LIB, 'pub fn recv_timeout', 'unsafe { internal.queue.push_back(p.recv()) }', 'unsafe { drop(p.recv()) }')])
m('s10_split_section_try_send_option', 'C03', ['S10', 'S1', 'S3'], 'try_send_option releases and re-takes the lock between the receiver check and the capacity test',
  [(LIB, 'pub fn try_send_option(', """            } else if internal.queue.len() < internal.capacity {
                internal.queue.push_back(data.take().unwrap());
                return Ok(true);
            }""", """            }
            drop(internal);
            let mut internal = acquire_internal(&self.internal);
            if internal.queue.len() < internal.capacity {
                internal.queue.push_back(data.take().unwrap());
                return Ok(true);
            }""")])
m('p1_ge_new_write_address_ptr', 'C04', ['P1'], 'new_write_address_ptr uses >= instead of > in the size predicate',
  [(PTR, 'fn new_write_address_ptr', 'size_of::<T>() > size_of::<*mut T>()', 'size_of::<T>() >= size_of::<*mut T>()')])
m('p2_swapped_tail_recv_timeout', 'C04', ['P2'], 'recv_timeout final read uses the wrong storage for each size class',
  [(LIB, 'pub fn recv_timeout', """                Ok(unsafe { ret.assume_init() })
            } else {
                Ok(unsafe { sig.assume_init() })""", """                Ok(unsafe { sig.assume_init() })
            } else {
                Ok(unsafe { ret.assume_init() })""")])
m('g2_wake_store_relaxed', 'C04', ['G2'], 'async arm of wake publishes with a Relaxed store',
  [(SIG, 'KanalWaker::Async(w) => {', '(*this).state.store(state, Ordering::Release);', '(*this).state.store(state, Ordering::Relaxed);')])
m('s6_send_no_drop_on_close', 'C05', ['S6'], 'blocked send released by close no longer drops its value',
  [(LIB, 'pub fn send(&self, data: T)', """                if needs_drop::<T>() {
                    unsafe { data.assume_init_drop() }
                }
                return Err(SendError::Closed);""", """                return Err(SendError::Closed);""")])
m('g5_no_unpark', 'C06', ['G5'], 'wake stores the final state but no longer unparks the parked thread',
  [(SIG, 'unsafe fn wake', '                    thread.unpark();\n', '                    let _ = thread;\n')])
m('l1_asyncreceiver_drop_no_terminate', 'C06', ['L1'], 'AsyncReceiver::drop does not terminate blocked senders on the last drop',
  [(LIB, 'impl<T> Drop for AsyncReceiver<T>', """            if internal.recv_count == 0 && internal.send_count != 0 {
                internal.terminate_signals();
            }
""", '')])
m('g4_store_before_clone', 'C07', ['G4'], 'async arm of wake clones the waker after the final state store',
  [(SIG, 'KanalWaker::Async(w) => {', """                let w = w.clone();
                (*this).state.store(state, Ordering::Release);""", """                (*this).state.store(state, Ordering::Release);
                let w = w.clone();""")])
m('s3_le_admission_try_send_realtime', 'C08', ['S3'], 'try_send_realtime admits when len <= capacity',
  [(LIB, 'pub fn try_send_realtime', 'internal.queue.len() < internal.capacity', 'internal.queue.len() <= internal.capacity')])
m('l4_no_repr_c', 'C09', ['L4'], 'AsyncReceiver loses #[repr(C)]',
  [(LIB, '/// [`AsyncReceiver`] is receiving side', '#[cfg(feature = "async")]\n#[repr(C)]\npub struct AsyncReceiver<T>', '#[cfg(feature = "async")]\npub struct AsyncReceiver<T>')])
m('l5_close_no_clear', 'C10', ['L5'], 'close does not clear the buffer',
  [(LIB, 'pub fn close(&self)', '            internal.queue.clear();\n', '')])
m('r1_no_closed_check_try_recv_realtime', 'C10', ['R1'], 'try_recv_realtime lost its recv_count==0 check',
  [(LIB, 'pub fn try_recv_realtime', """                if internal.recv_count == 0 {
                    return Err(ReceiveError::Closed);
                }
""", '')])
m('r5_sc0_before_pop_recv_timeout', 'C11', ['R5'], 'recv_timeout reports SendClosed before draining the buffer',
  [(LIB, 'pub fn recv_timeout', """        if internal.recv_count == 0 {
            return Err(ReceiveErrorTimeout::Closed);
        }
""", """        if internal.recv_count == 0 {
            return Err(ReceiveErrorTimeout::Closed);
        }
        if internal.send_count == 0 {
            return Err(ReceiveErrorTimeout::SendClosed);
        }
""")])
m('l2_clone_async_wrong_counter', 'C12', ['L2'], 'Sender::clone_async bumps recv_count',
  [(LIB, 'pub fn clone_async(&self) -> AsyncSender<T>', 'internal.send_count += 1;', 'internal.recv_count += 1;')])
m('l1_unguarded_decrement', 'C12', ['L1'], 'AsyncSender::drop decrements without the count>0 guard',
  [(LIB, 'impl<T> Drop for AsyncSender<T>', 'if internal.send_count > 0 {', 'if internal.send_count > 0 || internal.recv_count > 0 {')])
m('s6_no_restore_on_timeout', 'C13', ['S6'], 'send_option_timeout does not hand the value back on Timeout',
  [(LIB, 'pub fn send_option_timeout', """                    if internal.cancel_send_signal(&sig) {
                        *data = Some(d);
                        return Err(SendErrorTimeout::Timeout);""", """                    if internal.cancel_send_signal(&sig) {
                        return Err(SendErrorTimeout::Timeout);""")])
m('r8_timeout_without_cancel', 'C13', ['R8', 'R10'], 'recv_timeout returns Timeout even if the cancel failed',
  [(LIB, 'pub fn recv_timeout', """                    if internal.cancel_recv_signal(&sig) {
                        return Err(ReceiveErrorTimeout::Timeout);
                    }""", """                    let _ = internal.cancel_recv_signal(&sig);
                    return Err(ReceiveErrorTimeout::Timeout);""")])
m('s9_blocking_lock_in_realtime', 'C14', ['S9'], 'try_recv_realtime falls back to the blocking lock',
  [(LIB, 'pub fn try_recv_realtime', 'if let Some(mut internal) = try_acquire_internal(&self.internal) {', 'if let Some(mut internal) = Some(acquire_internal(&self.internal)) {')])
m('f6_recv_future_drop_no_wait', 'C15', ['F6'], 'ReceiveFuture::drop does not wait for the sender that already claimed it',
  [(FUT, 'impl<T> Drop for ReceiveFuture', 'if self.sig.async_blocking_wait() {', 'if self.sig.poll() == Poll::Ready(true) {')])
m('f4_done_returns_pending', 'C16', ['F4'], 'SendFuture polled after completion returns Pending instead of panicking',
  [(FUT, 'impl<T> Future for SendFuture', '_ => panic!("polled after result is already returned"),', '_ => Poll::Pending,')])
m('m2_try_lock_relaxed', 'C17', ['M2'], 'try_lock acquires with Relaxed',
  [(MUT, 'fn try_lock', 'Ordering::Acquire, Ordering::Relaxed', 'Ordering::Relaxed, Ordering::Relaxed')])
m('m4_spin_cond_gives_up', 'C17', ['M4'], 'spin_cond returns after the maximum back-off',
  [(BK, 'pub fn spin_cond', """        if spins < (1 << 30) {
            spins <<= 1;
        }""", """        if spins < (1 << 30) {
            spins <<= 1;
        } else {
            return;
        }""")])
m('o1_receiver_is_disconnected', 'C18', ['O1'], 'receiver is_disconnected reads recv_count',
  [(LIB, 'Returns, whether the send side of the channel, is closed or not.', 'acquire_internal(&self.internal).send_count == 0', 'acquire_internal(&self.internal).recv_count == 0')])
m('r9_count_ignores_waitlist', 'C19', ['R9'], 'drain_into count ignores the blocked senders',
  [(LIB, 'pub fn drain_into', """            let required_cap = internal.queue.len() + {
                if internal.recv_blocking {
                    0
                } else {
                    internal.wait_list.len()
                }
            };""", """            let required_cap = internal.queue.len();""")])
m('t2_loosened_send_bound', 'C20', ['T2', 'T4'], 'unsafe impl<T> Send for ChannelInternal<T> without the T: Send bound',
  [(INT, 'unsafe impl', 'unsafe impl<T: Send> Send for ChannelInternal<T> {}', 'unsafe impl<T> Send for ChannelInternal<T> {}')])
m('h2_next_recv_polarity', 'C18', ['H2'], 'next_recv tests recv_blocking with the wrong polarity',
  [(INT, 'fn next_recv', 'if !self.recv_blocking {', 'if self.recv_blocking {')])
m('h4_cancel_true_without_remove', 'C13', ['H4'], 'cancel_recv_signal reports success without removing the entry',
  [(INT, 'fn cancel_recv_signal', """                    self.wait_list.remove(i);
                    return true;""", """                    return true;""")])
m('g6_wait_single_park', 'C07', ['G6'], 'wait parks once instead of in a re-checking loop',
  [(SIG, 'pub(crate) fn wait(&self)', """                    Ok(_) => loop {
                        std::thread::park();
                        let v = self.state.load(Ordering::Acquire);
                        if v < LOCKED {
                            return v == UNLOCKED;
                        }
                    },""", """                    Ok(_) => {
                        std::thread::park();
                        self.state.load(Ordering::Acquire) == UNLOCKED
                    }""")])
m('g2_poll_no_fence', 'C07', ['G2'], 'Signal::poll loses its acquire fence',
  [(SIG, 'pub(crate) fn poll(&self)', """            fence(Ordering::Acquire);
            Poll::Ready(v == UNLOCKED)""", """            Poll::Ready(v == UNLOCKED)""")])
m('f3_register_waker_after_unlock', 'C07', ['F3'], 'ReceiveFuture refreshes the waker after releasing the lock (regression of the repaired defect)',
  [(FUT, 'impl<T> Future for ReceiveFuture', """                                this.sig.register_waker(cx.waker());
                                drop(internal);
                                Poll::Pending""", """                                drop(internal);
                                this.sig.register_waker(cx.waker());
                                Poll::Pending""")])
m('f5_rearm_without_reset', 'C16', ['F5'], 'stream re-arm does not reset the signal (regression of the repaired defect)',
  [(FUT, 'if this.is_stream {', '                        this.sig = Signal::new_async();\n', '')])
m('s6_send_timeout_leak', 'C05', ['S6'], 'send_timeout Timeout path does not drop the value (regression of the repaired defect)',
  [(LIB, 'pub fn send_timeout', """                        drop(internal);
                        // Safety: the signal is removed from the wait list, so
                        // data failed to move, sender should drop it if it
                        // needs to
                        if needs_drop::<T>() {
                            unsafe { data.assume_init_drop() }
                        }
                        return Err(SendErrorTimeout::Timeout);""", """                        return Err(SendErrorTimeout::Timeout);""")])
m('s6_send_option_timeout_double_drop', 'C05', ['S6'], 'send_option_timeout drops its local copy after a hand-off (regression of the repaired defect)',
  [(LIB, 'pub fn send_option_timeout', '            core::mem::forget(d);\n', '')])
m('f3_send_future_no_register', 'C06', ['F3'], 'SendFuture does not refresh its waker (regression of the repaired defect)',
  [(FUT, 'impl<T> Future for SendFuture', """                            this.sig.register_waker(cx.waker());
                            drop(internal);""", """                            drop(internal);""")])
m('s1_swapped_error_variants', 'C11', ['S1'], 'try_send reports Closed/ReceiveClosed swapped',
  [(LIB, 'pub fn try_send(&self, data: T)', """                if send_count == 0 {
                    return Err(SendError::Closed);
                }
                return Err(SendError::ReceiveClosed);""", """                if send_count == 0 {
                    return Err(SendError::ReceiveClosed);
                }
                return Err(SendError::Closed);""")])
m('s4_send_future_no_waker', 'C06', ['S4'], 'SendFuture registers in the wait list without storing the waker',
  [(FUT, 'impl<T> Future for SendFuture', """                    this.sig.register_waker(cx.waker());
                    // send directly to the waitlist""", """                    // send directly to the waitlist""")])
m('p4_write_no_forget', 'C05', ['P4', 'P2'], 'KanalPtr::write no longer forgets the small value whose bits it copied',
  [(PTR, 'pub(crate) unsafe fn write', '            forget(d);\n', '')])
m('l3_to_async_via_construct', 'C12', ['L3', 'L4'], 'to_async builds a new handle over a cloned Arc without adjusting the count (self is then dropped, count goes down)',
  [(LIB, 'pub fn to_async(self) -> AsyncSender<T>', 'unsafe { transmute(self) }', 'AsyncSender::<T> { internal: self.internal.clone() }')])
m('o1_is_full_off_by_one', 'C18', ['O1'], 'is_full compares capacity with len+1',
  [(LIB, 'pub fn is_full', 'internal.capacity == internal.queue.len()', 'internal.capacity == internal.queue.len() + 1')])
m('h8_unbounded_capacity', 'C08', ['H8'], 'unbounded channels get the starting size as capacity',
  [(INT, 'pub(crate) fn new(bounded: bool', """        if !bounded {
            // act like there is no limit
            abstract_capacity = usize::MAX;
        }""", """        if !bounded && capacity == 0 {
            // act like there is no limit
            abstract_capacity = usize::MAX;
        }""")])
m('m1_try_lock_polarity', 'C17', ['M1'], 'try_lock reports success when the CAS failed',
  [(MUT, 'fn try_lock', '            .is_ok()', '            .is_err()')])

# ----------------------------------------------------------------------------- benign
b('capacity_gt_len', '`capacity > len` instead of `len < capacity` in send',
  [(LIB, 'pub fn send(&self, data: T)', 'internal.queue.len() < internal.capacity', 'internal.capacity > internal.queue.len()')])
b('match_instead_of_if_let', 'match instead of if let in try_recv',
  [(LIB, 'pub fn try_recv(&self)', """            if internal.send_count == 0 {
                return Err(ReceiveError::SendClosed);
            }
            Ok(None)""", """            match internal.send_count {
                0 => Err(ReceiveError::SendClosed),
                _ => Ok(None),
            }""")])
b('scope_end_unlock', 'scope-end unlock instead of drop(internal) in Sender::clone',
  [(LIB, 'impl<T> Clone for Sender<T>', """        let mut internal = acquire_internal(&self.internal);
        if internal.send_count > 0 {
            internal.send_count += 1;
        }
        drop(internal);""", """        {
            let mut internal = acquire_internal(&self.internal);
            if internal.send_count > 0 {
                internal.send_count += 1;
            }
        }""")])
b('unconditional_assume_init_drop', 'send drops without the needs_drop test',
  [(LIB, 'pub fn send(&self, data: T)', """                if needs_drop::<T>() {
                    unsafe { data.assume_init_drop() }
                }
                return Err(SendError::Closed);""", """                unsafe { data.assume_init_drop() }
                return Err(SendError::Closed);""")])
b('is_empty_vs_len', 'is_terminated uses is_empty()',
  [(LIB, 'pub fn is_terminated', 'internal.send_count == 0 && internal.queue.len() == 0', 'internal.send_count == 0 && internal.queue.is_empty()')])
b('hoisted_read', 'close reads both counts into locals first',
  [(LIB, 'pub fn close(&self)', """            if internal.recv_count == 0 && internal.send_count == 0 {""", """            let rc = internal.recv_count;
            let sc = internal.send_count;
            if rc == 0 && sc == 0 {""")])
b('reordered_independent', 'close clears the buffer before terminating the waiters',
  [(LIB, 'pub fn close(&self)', """            internal.terminate_signals();
            internal.queue.clear();""", """            internal.queue.clear();
            internal.terminate_signals();""")])
b('seqcst_instead_of_release', 'wake stores with SeqCst',
  [(SIG, 'KanalWaker::Async(w) => {', '(*this).state.store(state, Ordering::Release);', '(*this).state.store(state, Ordering::SeqCst);')])
b('repr_transparent', 'repr(transparent) instead of repr(C) on Receiver',
  [(LIB, '/// Receiving side of the channel in sync mode.', '#[repr(C)]\npub struct Receiver<T>', '#[repr(transparent)]\npub struct Receiver<T>')])
b('is_closed_swapped_conjuncts', 'is_closed tests recv_count first',
  [(LIB, 'pub fn is_closed', 'internal.send_count == 0 && internal.recv_count == 0', 'internal.recv_count == 0 && internal.send_count == 0')])
b('is_full_ge', 'is_full as len >= capacity',
  [(LIB, 'pub fn is_full', 'internal.capacity == internal.queue.len()', 'internal.queue.len() >= internal.capacity')])
b('try_send_early_drop_comment_only', 'comment and whitespace changes',
  [(LIB, 'pub fn try_send(&self, data: T)', '                // Avoid wasting lock time on dropping failed send object\n', '                // release the lock before the failed object is dropped\n\n')])
b('wait_timeout_acquire_loads', 'wait_timeout uses Acquire loads instead of Relaxed + fence',
  [(SIG, 'pub(crate) fn wait_timeout', """        while Instant::now() < until {
            let v = self.state.load(Ordering::Relaxed);
            if v < LOCKED {
                fence(Ordering::Acquire);
                return v == UNLOCKED;
            }""", """        while Instant::now() < until {
            let v = self.state.load(Ordering::Acquire);
            if v < LOCKED {
                return v == UNLOCKED;
            }""")])
b('drop_count_ne_zero', 'Drop uses != 0 instead of > 0',
  [(LIB, 'impl<T> Drop for Receiver<T>', 'if internal.recv_count > 0 {', 'if internal.recv_count != 0 {')])
b('recv_result_let', 'recv binds the direct result to a local before returning',
  [(LIB, 'pub fn recv(&self) -> Result<T, ReceiveError>', """            drop(internal);
            // Safety: it's safe to receive from owned signal once
            unsafe { Ok(p.recv()) }""", """            drop(internal);
            // Safety: it's safe to receive from owned signal once
            let v = unsafe { p.recv() };
            Ok(v)""")])
b('helper_extracted_closed_kind', 'send: the Closed/ReceiveClosed decision is moved into a private helper',
  [(LIB, 'pub fn send(&self, data: T)', """        if internal.recv_count == 0 {
            let send_count = internal.send_count;
            // Avoid wasting lock time on dropping failed send object
            drop(internal);
            if send_count == 0 {
                return Err(SendError::Closed);
            }
            return Err(SendError::ReceiveClosed);
        }""", """        if internal.recv_count == 0 {
            let e = Self::closed_kind(&internal);
            // Avoid wasting lock time on dropping failed send object
            drop(internal);
            return Err(e);
        }"""),
   (LIB, 'impl<T> Sender<T> {', """impl<T> Sender<T> {""", """impl<T> Sender<T> {
    #[inline(always)]
    fn closed_kind(internal: &ChannelInternal<T>) -> SendError {
        if internal.send_count == 0 {
            SendError::Closed
        } else {
            SendError::ReceiveClosed
        }
    }
""")])
b('helper_extracted_has_room', 'try_send_realtime: the admission test is moved into a private helper',
  [(LIB, 'pub fn try_send_realtime', 'internal.queue.len() < internal.capacity', 'has_room(&internal)'),
   (LIB, 'const UNBOUNDED_STARTING_SIZE', 'const UNBOUNDED_STARTING_SIZE: usize = 32;', """const UNBOUNDED_STARTING_SIZE: usize = 32;

#[inline(always)]
fn has_room<T>(internal: &ChannelInternal<T>) -> bool {
    internal.queue.len() < internal.capacity
}""")])
b('observer_calls_observer', 'is_empty implemented as self.len() == 0',
  [(LIB, 'pub fn is_empty(&self)', 'acquire_internal(&self.internal).queue.is_empty()', 'self.len() == 0')])
b('try_lock_swap_form', 'try_lock as !swap(true, Acquire)',
  [(MUT, 'fn try_lock', """        self.locked
            .compare_exchange(false, true, Ordering::Acquire, Ordering::Relaxed)
            .is_ok()""", """        !self.locked.swap(true, Ordering::Acquire)""")])
b('drop_last_flag_local', 'Drop computes the last-handle condition into a local first',
  [(LIB, 'impl<T> Drop for Sender<T>', """            if internal.send_count == 0 && internal.recv_count != 0 {
                internal.terminate_signals();
            }""", """            let last = internal.send_count == 0;
            if last && internal.recv_count != 0 {
                internal.terminate_signals();
            }""")])
b('wait_more_spins', 'Signal::wait spins 1024 times before parking',
  [(SIG, 'pub(crate) fn wait(&self)', 'for _ in 0..256 {', 'for _ in 0..1024 {')])
b('wake_clone_before_cas', 'wake clones the thread handle only after the CAS failed but binds the Option first',
  [(SIG, 'unsafe fn wake', 'let thread = (*waker.get()).as_ref().unwrap().clone();', 'let handle = (*waker.get()).as_ref();\n                    let thread = handle.unwrap().clone();')])
b('iterator_next_match', 'Iterator::next uses match instead of ok()',
  [(LIB, 'impl<T> Iterator for Receiver<T>', 'self.recv().ok()', 'match self.recv() {\n            Ok(v) => Some(v),\n            Err(_) => None,\n        }')])
b('recv_timeout_deadline_plus', 'recv_timeout computes the deadline with + instead of checked_add().unwrap()',
  [(LIB, 'pub fn recv_timeout', 'let deadline = Instant::now().checked_add(duration).unwrap();', 'let deadline = Instant::now() + duration;')])
b('cancel_position_remove', 'cancel_send_signal searches with iter().position(..) and removes that index',
  [(INT, 'fn cancel_send_signal', """            for (i, send) in self.wait_list.iter().enumerate() {
                if send.eq(sig) {
                    self.wait_list.remove(i);
                    return true;
                }
            }""", """            if let Some(i) = self.wait_list.iter().position(|s| s.eq(sig)) {
                self.wait_list.remove(i);
                return true;
            }""")])
b('terminate_pop_loop', 'terminate_signals pops until the list is empty instead of iterating and clearing',
  [(INT, 'fn terminate_signals', """        for t in self.wait_list.iter() {
            // Safety: it's safe to terminate owned signal once
            unsafe { t.terminate() }
        }
        self.wait_list.clear();""", """        while let Some(t) = self.wait_list.pop_front() {
            // Safety: it's safe to terminate owned signal once
            unsafe { t.terminate() }
        }""")])
b('exists_any', 'recv_signal_exists uses iter().any(..)',
  [(INT, 'fn recv_signal_exists', """            for signal in self.wait_list.iter() {
                if signal.eq(sig) {
                    return true;
                }
            }""", """            if self.wait_list.iter().any(|s| s.eq(sig)) {
                return true;
            }""")])
m('cancel_position_swap_remove', 'C02', ['H4', 'Q1'], 'position(..) + swap_remove_back',
  [(INT, 'fn cancel_recv_signal', """            for (i, recv) in self.wait_list.iter().enumerate() {
                if recv.eq(sig) {
                    self.wait_list.remove(i);
                    return true;
                }
            }""", """            if let Some(i) = self.wait_list.iter().position(|s| s.eq(sig)) {
                self.wait_list.swap_remove_back(i);
                return true;
            }""")])
m('cancel_rposition', 'C07', ['H4'], 'rev().position(..) gives an index from the back but remove(i) counts from the front',
  [(INT, 'fn cancel_send_signal', """            for (i, send) in self.wait_list.iter().enumerate() {
                if send.eq(sig) {
                    self.wait_list.remove(i);
                    return true;
                }
            }""", """            if let Some(i) = self.wait_list.iter().rev().position(|s| s.eq(sig)) {
                self.wait_list.remove(i);
                return true;
            }""")])
m('terminate_pop_loop_single', 'C06', ['H6'], 'terminate_signals terminates only the first waiter',
  [(INT, 'fn terminate_signals', """        for t in self.wait_list.iter() {
            // Safety: it's safe to terminate owned signal once
            unsafe { t.terminate() }
        }
        self.wait_list.clear();""", """        if let Some(t) = self.wait_list.pop_front() {
            // Safety: it's safe to terminate owned signal once
            unsafe { t.terminate() }
        }""")])
b('send_manually_drop_slot', 'send keeps the blocked value in a ManuallyDrop instead of a MaybeUninit',
  [(LIB, 'pub fn send(&self, data: T)', """            let mut data = MaybeUninit::new(data);
            // send directly to the waitlist
            let sig = Signal::new_sync(KanalPtr::new_from(data.as_mut_ptr()));""", """            let mut data = core::mem::ManuallyDrop::new(data);
            // send directly to the waitlist
            let sig = Signal::new_sync(KanalPtr::new_from(&mut *data));"""),
   (LIB, 'pub fn send(&self, data: T)', """                if needs_drop::<T>() {
                    unsafe { data.assume_init_drop() }
                }
                return Err(SendError::Closed);""", """                if needs_drop::<T>() {
                    unsafe { core::mem::ManuallyDrop::drop(&mut data) }
                }
                return Err(SendError::Closed);""")])
b('recv_tail_helper', 'recv/recv_timeout share a private helper for the final read',
  [(LIB, 'pub fn recv(&self) -> Result<T, ReceiveError>', """            if size_of::<T>() > size_of::<*mut T>() {
                Ok(unsafe { ret.assume_init() })
            } else {
                Ok(unsafe { sig.assume_init() })
            }""", """            Ok(unsafe { take_received(ret, &sig) })"""),
   (LIB, 'pub fn recv_timeout', """            if size_of::<T>() > size_of::<*mut T>() {
                Ok(unsafe { ret.assume_init() })
            } else {
                Ok(unsafe { sig.assume_init() })
            }""", """            Ok(unsafe { take_received(ret, &sig) })"""),
   (LIB, 'const UNBOUNDED_STARTING_SIZE', 'const UNBOUNDED_STARTING_SIZE: usize = 32;', """const UNBOUNDED_STARTING_SIZE: usize = 32;

/// Safety: the signal must have reported a successful hand-off
#[inline(always)]
unsafe fn take_received<T>(ret: MaybeUninit<T>, sig: &Signal<T>) -> T {
    if size_of::<T>() > size_of::<*mut T>() {
        ret.assume_init()
    } else {
        sig.assume_init()
    }
}""")])
b('drop_early_return', 'Drop returns early when the count is already zero',
  [(LIB, 'impl<T> Drop for Sender<T>', """        if internal.send_count > 0 {
            internal.send_count -= 1;
            if internal.send_count == 0 && internal.recv_count != 0 {
                internal.terminate_signals();
            }
        }""", """        if internal.send_count == 0 {
            return;
        }
        internal.send_count -= 1;
        if internal.send_count == 0 && internal.recv_count != 0 {
            internal.terminate_signals();
        }""")])
b('wait_while_loop', 'Signal::wait parks in a while loop on the state',
  [(SIG, 'pub(crate) fn wait(&self)', """                    Ok(_) => loop {
                        std::thread::park();
                        let v = self.state.load(Ordering::Acquire);
                        if v < LOCKED {
                            return v == UNLOCKED;
                        }
                    },""", """                    Ok(_) => {
                        let mut v = self.state.load(Ordering::Acquire);
                        while v >= LOCKED {
                            std::thread::park();
                            v = self.state.load(Ordering::Acquire);
                        }
                        v == UNLOCKED
                    }""")])
b('wake_match_cas', 'wake matches on the CAS result instead of is_err()',
  [(SIG, 'unsafe fn wake', """                if (*this)
                    .state
                    .compare_exchange(LOCKED, state, Ordering::Release, Ordering::Acquire)
                    .is_err()
                {
                    let thread = (*waker.get()).as_ref().unwrap().clone();
                    (*this).state.store(state, Ordering::Release);
                    thread.unpark();
                }""", """                match (*this)
                    .state
                    .compare_exchange(LOCKED, state, Ordering::Release, Ordering::Acquire)
                {
                    Ok(_) => {}
                    Err(_) => {
                        let thread = (*waker.get()).as_ref().unwrap().clone();
                        (*this).state.store(state, Ordering::Release);
                        thread.unpark();
                    }
                }""")])
b('send_early_returns', 'send uses early returns instead of an if/else chain',
  [(LIB, 'pub fn send(&self, data: T)', """        if let Some(first) = internal.next_recv() {
            drop(internal);
            // Safety: it's safe to send to owned signal once
            unsafe { first.send(data) }
            Ok(())
        } else if internal.queue.len() < internal.capacity {
            // Safety: MaybeUninit is acting like a ManuallyDrop
            internal.queue.push_back(data);
            Ok(())
        } else {""", """        if let Some(first) = internal.next_recv() {
            drop(internal);
            // Safety: it's safe to send to owned signal once
            unsafe { first.send(data) }
            return Ok(());
        }
        if internal.queue.len() < internal.capacity {
            // Safety: MaybeUninit is acting like a ManuallyDrop
            internal.queue.push_back(data);
            return Ok(());
        }
        {""")])


def apply(text, marker, old, new, fname):
    i = text.find(marker)
    if i < 0:
        raise SystemExit('marker not found in %s: %r' % (fname, marker))
    j = text.find(old, i)
    if j < 0:
        raise SystemExit('old text not found after marker %r in %s: %r' % (marker, fname, old[:60]))
    return text[:j] + new + text[j + len(old):]


def gen(specs, sub):
    outdir = os.path.join(V, 'corpus', sub)
    os.makedirs(outdir, exist_ok=True)
    for f in os.listdir(outdir):
        if f.endswith('.patch') and not f.startswith('ext_'):
            os.remove(os.path.join(outdir, f))
    for name, prop, rules, desc, edits in specs:
        files = {}
        for fname, marker, old, new in edits:
            if fname not in files:
                files[fname] = open(os.path.join(REPO, fname)).read()
            files[fname] = apply(files[fname], marker, old, new, fname)
        out = []
        out.append('# %s\n' % desc)
        if prop:
            out.append('# property: %s\n# expect: %s\n' % (prop, ','.join(rules)))
        for fname, newtext in files.items():
            orig = open(os.path.join(REPO, fname)).read()
            d = difflib.unified_diff(orig.splitlines(True), newtext.splitlines(True), 'a/' + fname, 'b/' + fname, n=3)
            out.extend(d)
        open(os.path.join(outdir, name + '.patch'), 'w').write(''.join(out))
    print('%s: %d patches' % (sub, len(specs)))


if __name__ == '__main__':
    gen(M, 'mutants')
    gen(B, 'benign')
