// kfacts: rustc_private driver that dumps the type-checked program (MIR at opt-level 0,
// resolved callees, field names, ADT / impl tables) of crate `kanal` as one JSON file.
// Used through RUSTC_WORKSPACE_WRAPPER; for every other crate it behaves like rustc.
// Output file: $KFACTS_OUT (one write per process). Nonce: $KFACTS_NONCE is copied into the file.
#![feature(rustc_private)]
#![allow(clippy::all)]

extern crate rustc_abi;
extern crate rustc_driver;
extern crate rustc_hir;
extern crate rustc_interface;
extern crate rustc_middle;
extern crate rustc_span;

use rustc_driver::Compilation;
use rustc_hir::def::DefKind;
use rustc_hir::def_id::{DefId, LOCAL_CRATE};
use rustc_middle::mir::{
    AggregateKind, BasicBlock, Body, BorrowKind, Operand, Place, PlaceTy, ProjectionElem, Rvalue,
    StatementKind, TerminatorKind, UnwindAction,
};
use rustc_middle::ty::print::with_no_trimmed_paths;
use rustc_middle::ty::{self, Instance, Ty, TyCtxt, TypingEnv};
use rustc_span::Span;

mod json;
use json::J;

struct Cb;

fn s(x: impl Into<String>) -> J {
    J::Str(x.into())
}

fn span_str(tcx: TyCtxt<'_>, sp: Span) -> String {
    let sm = tcx.sess.source_map();
    let lo = sm.lookup_char_pos(sp.lo());
    format!("{}:{}", lo.file.name.prefer_local_unconditionally(), lo.line)
}

fn ty_str<'tcx>(t: Ty<'tcx>) -> String {
    with_no_trimmed_paths!(format!("{}", t))
}

fn path_str(tcx: TyCtxt<'_>, did: DefId) -> String {
    with_no_trimmed_paths!(tcx.def_path_str(did))
}

struct Cx<'a, 'tcx> {
    tcx: TyCtxt<'tcx>,
    body: &'a Body<'tcx>,
    env: TypingEnv<'tcx>,
}

impl<'a, 'tcx> Cx<'a, 'tcx> {
    fn place(&self, p: &Place<'tcx>) -> J {
        let tcx = self.tcx;
        let mut pty = PlaceTy::from_ty(self.body.local_decls[p.local].ty);
        let mut projs = Vec::new();
        for el in p.projection.iter() {
            let j = match el {
                ProjectionElem::Deref => s("*"),
                ProjectionElem::Field(f, fty) => {
                    let name = match pty.ty.kind() {
                        ty::Adt(adt, _) => {
                            let v = match pty.variant_index {
                                Some(vi) => adt.variant(vi),
                                None => {
                                    if adt.is_enum() {
                                        // field of an enum without downcast: should not happen
                                        adt.variant(rustc_abi::FIRST_VARIANT)
                                    } else {
                                        adt.non_enum_variant()
                                    }
                                }
                            };
                            v.fields[f].name.to_string()
                        }
                        _ => format!("{}", f.index()),
                    };
                    J::Obj(vec![
                        ("f".into(), s(name)),
                        ("i".into(), J::Num(f.index() as i128)),
                        ("ty".into(), s(ty_str(fty))),
                    ])
                }
                ProjectionElem::Downcast(name, vi) => {
                    let n = match name {
                        Some(n) => n.to_string(),
                        None => format!("{}", vi.index()),
                    };
                    J::Obj(vec![("dc".into(), s(n))])
                }
                ProjectionElem::Index(l) => J::Obj(vec![("idx".into(), J::Num(l.index() as i128))]),
                ProjectionElem::ConstantIndex { offset, .. } => {
                    J::Obj(vec![("cidx".into(), J::Num(offset as i128))])
                }
                ProjectionElem::Subslice { .. } => s("subslice"),
                ProjectionElem::OpaqueCast(_) => s("opaque"),
                ProjectionElem::UnwrapUnsafeBinder(_) => s("unbinder"),
            };
            projs.push(j);
            pty = pty.projection_ty(tcx, el);
        }
        J::Obj(vec![
            ("l".into(), J::Num(p.local.index() as i128)),
            ("p".into(), J::Arr(projs)),
            ("ty".into(), s(ty_str(pty.ty))),
        ])
    }

    fn fn_info(&self, def_id: DefId, args: ty::GenericArgsRef<'tcx>) -> J {
        let tcx = self.tcx;
        let mut o = vec![
            ("path".into(), s(path_str(tcx, def_id))),
            (
                "args".into(),
                J::Arr(
                    args.iter()
                        .map(|a| s(with_no_trimmed_paths!(format!("{}", a))))
                        .collect(),
                ),
            ),
            ("local".into(), J::Bool(def_id.is_local())),
            ("crate".into(), s(tcx.crate_name(def_id.krate).to_string())),
            (
                "full".into(),
                s(with_no_trimmed_paths!(tcx.def_path_str_with_args(def_id, args))),
            ),
        ];
        // name of the item and, for associated items, its container
        if let Some(name) = tcx.opt_item_name(def_id) {
            o.push(("name".into(), s(name.to_string())));
        }
        if let Some(assoc) = tcx.opt_associated_item(def_id) {
            let cont = assoc.container_id(tcx);
            match tcx.def_kind(cont) {
                DefKind::Trait => {
                    o.push(("trait".into(), s(path_str(tcx, cont))));
                }
                DefKind::Impl { .. } => {
                    let st = tcx.type_of(cont).instantiate_identity().skip_norm_wip();
                    o.push(("impl_self".into(), s(ty_str(st))));
                }
                _ => {}
            }
        }
        // resolve trait calls where possible
        let resolved = match Instance::try_resolve(tcx, self.env, def_id, args) {
            Ok(Some(inst)) => {
                let rd = inst.def_id();
                if rd != def_id {
                    Some((path_str(tcx, rd), rd.is_local()))
                } else {
                    None
                }
            }
            _ => None,
        };
        if let Some((r, loc)) = resolved {
            o.push(("resolved".into(), s(r)));
            o.push(("resolved_local".into(), J::Bool(loc)));
        }
        J::Obj(o)
    }

    fn operand(&self, op: &Operand<'tcx>) -> J {
        match op {
            Operand::Copy(p) => J::Obj(vec![("k".into(), s("copy")), ("p".into(), self.place(p))]),
            Operand::Move(p) => J::Obj(vec![("k".into(), s("move")), ("p".into(), self.place(p))]),
            Operand::Constant(c) => {
                let cty = c.const_.ty();
                let mut o = vec![
                    ("k".into(), s("const")),
                    ("ty".into(), s(ty_str(cty))),
                    ("dbg".into(), s(with_no_trimmed_paths!(format!("{:?}", c.const_)))),
                ];
                if let rustc_middle::mir::Const::Unevaluated(uv, _) = c.const_ {
                    if uv.promoted.is_none() {
                        o.push(("constdef".into(), s(path_str(self.tcx, uv.def))));
                    }
                }
                if let ty::FnDef(did, args) = cty.kind() {
                    o.push(("fn".into(), self.fn_info(*did, args)));
                } else if cty.is_integral() || cty.is_bool() || cty.is_char() {
                    if let Some(si) = c.const_.try_eval_scalar_int(self.tcx, self.env) {
                        let bits = si.to_bits_unchecked();
                        o.push(("val".into(), J::Str(format!("{}", bits))));
                    }
                }
                J::Obj(o)
            }
            #[allow(unreachable_patterns)]
            _ => J::Obj(vec![("k".into(), s("otherop")), ("dbg".into(), s(format!("{:?}", op)))]),
        }
    }

    fn rvalue(&self, rv: &Rvalue<'tcx>) -> J {
        let tcx = self.tcx;
        match rv {
            Rvalue::Use(o, ..) => J::Obj(vec![("k".into(), s("use")), ("o".into(), self.operand(o))]),
            Rvalue::Ref(_, bk, p) => {
                let b = match bk {
                    BorrowKind::Shared => "shared",
                    BorrowKind::Fake(_) => "fake",
                    BorrowKind::Mut { .. } => "mut",
                };
                J::Obj(vec![("k".into(), s("ref")), ("bk".into(), s(b)), ("p".into(), self.place(p))])
            }
            Rvalue::RawPtr(k, p) => J::Obj(vec![
                ("k".into(), s("rawptr")),
                ("m".into(), s(format!("{:?}", k))),
                ("p".into(), self.place(p)),
            ]),
            Rvalue::Cast(ck, o, t) => J::Obj(vec![
                ("k".into(), s("cast")),
                ("ck".into(), s(format!("{:?}", ck))),
                ("o".into(), self.operand(o)),
                ("ty".into(), s(ty_str(*t))),
            ]),
            Rvalue::BinaryOp(op, ab) => J::Obj(vec![
                ("k".into(), s("bin")),
                ("op".into(), s(format!("{:?}", op))),
                ("a".into(), self.operand(&ab.0)),
                ("b".into(), self.operand(&ab.1)),
            ]),
            Rvalue::UnaryOp(op, a) => J::Obj(vec![
                ("k".into(), s("un")),
                ("op".into(), s(format!("{:?}", op))),
                ("a".into(), self.operand(a)),
            ]),
            Rvalue::Discriminant(p) => {
                let pty = p.ty(&self.body.local_decls, tcx).ty;
                let mut vars = Vec::new();
                if let ty::Adt(adt, _) = pty.kind() {
                    if adt.is_enum() {
                        for (vi, d) in adt.discriminants(tcx) {
                            vars.push(J::Arr(vec![
                                s(adt.variant(vi).name.to_string()),
                                J::Str(format!("{}", d.val)),
                            ]));
                        }
                    }
                }
                J::Obj(vec![
                    ("k".into(), s("discr")),
                    ("p".into(), self.place(p)),
                    ("variants".into(), J::Arr(vars)),
                ])
            }
            Rvalue::Aggregate(ak, fields) => {
                let mut o = vec![("k".into(), s("agg"))];
                match &**ak {
                    AggregateKind::Adt(did, vi, args, _, _) => {
                        let adt = tcx.adt_def(*did);
                        let v = adt.variant(*vi);
                        o.push(("ak".into(), s("adt")));
                        o.push(("name".into(), s(path_str(tcx, *did))));
                        o.push(("variant".into(), s(v.name.to_string())));
                        o.push(("is_enum".into(), J::Bool(adt.is_enum())));
                        o.push((
                            "targs".into(),
                            J::Arr(
                                args.iter()
                                    .map(|a| s(with_no_trimmed_paths!(format!("{}", a))))
                                    .collect(),
                            ),
                        ));
                        o.push((
                            "fnames".into(),
                            J::Arr(v.fields.iter().map(|f| s(f.name.to_string())).collect()),
                        ));
                    }
                    AggregateKind::Tuple => o.push(("ak".into(), s("tuple"))),
                    AggregateKind::Array(_) => o.push(("ak".into(), s("array"))),
                    AggregateKind::Closure(did, _) => {
                        o.push(("ak".into(), s("closure")));
                        o.push(("name".into(), s(path_str(tcx, *did))));
                    }
                    AggregateKind::RawPtr(..) => o.push(("ak".into(), s("rawptr"))),
                    _ => o.push(("ak".into(), s("other"))),
                }
                o.push((
                    "fields".into(),
                    J::Arr(fields.iter().map(|f| self.operand(f)).collect()),
                ));
                J::Obj(o)
            }
            Rvalue::CopyForDeref(p) => {
                J::Obj(vec![("k".into(), s("copyforderef")), ("p".into(), self.place(p))])
            }
            Rvalue::Repeat(o, _) => J::Obj(vec![("k".into(), s("repeat")), ("o".into(), self.operand(o))]),
            Rvalue::ThreadLocalRef(d) => {
                J::Obj(vec![("k".into(), s("tlref")), ("name".into(), s(path_str(tcx, *d)))])
            }
            _ => J::Obj(vec![
                ("k".into(), s("other")),
                ("dbg".into(), s(with_no_trimmed_paths!(format!("{:?}", rv)))),
            ]),
        }
    }

    fn unwind(&self, u: &UnwindAction) -> J {
        match u {
            UnwindAction::Cleanup(bb) => J::Num(bb.index() as i128),
            _ => J::Null,
        }
    }

    fn bb(&self, b: BasicBlock) -> J {
        J::Num(b.index() as i128)
    }

    fn body_json_promoted(&self, did: DefId) -> J {
        self.body_json_inner(did, true)
    }

    fn body_json(&self, did: DefId) -> J {
        self.body_json_inner(did, false)
    }

    fn body_json_inner(&self, did: DefId, promoted: bool) -> J {
        let tcx = self.tcx;
        let body = self.body;
        let mut locals = Vec::new();
        let mut names: Vec<Option<String>> = vec![None; body.local_decls.len()];
        for vdi in &body.var_debug_info {
            if let rustc_middle::mir::VarDebugInfoContents::Place(p) = &vdi.value {
                if p.projection.is_empty() {
                    names[p.local.index()] = Some(vdi.name.to_string());
                }
            }
        }
        for (l, d) in body.local_decls.iter_enumerated() {
            locals.push(J::Obj(vec![
                ("ty".into(), s(ty_str(d.ty))),
                (
                    "name".into(),
                    match &names[l.index()] {
                        Some(n) => s(n.clone()),
                        None => J::Null,
                    },
                ),
            ]));
        }
        let mut blocks = Vec::new();
        for (_bb, data) in body.basic_blocks.iter_enumerated() {
            let mut stmts = Vec::new();
            for st in &data.statements {
                let line = span_str(tcx, st.source_info.span);
                match &st.kind {
                    StatementKind::Assign(b) => {
                        let (p, rv) = &**b;
                        stmts.push(J::Obj(vec![
                            ("k".into(), s("assign")),
                            ("lhs".into(), self.place(p)),
                            ("rv".into(), self.rvalue(rv)),
                            ("at".into(), s(line)),
                            ("exp".into(), J::Bool(st.source_info.span.from_expansion())),
                        ]));
                    }
                    StatementKind::SetDiscriminant { place, variant_index } => {
                        stmts.push(J::Obj(vec![
                            ("k".into(), s("setdiscr")),
                            ("lhs".into(), self.place(place)),
                            ("variant".into(), J::Num(variant_index.index() as i128)),
                            ("at".into(), s(line)),
                        ]));
                    }
                    StatementKind::Intrinsic(i) => {
                        stmts.push(J::Obj(vec![
                            ("k".into(), s("intrinsic")),
                            ("dbg".into(), s(with_no_trimmed_paths!(format!("{:?}", i)))),
                            ("at".into(), s(line)),
                        ]));
                    }
                    StatementKind::StorageLive(_)
                    | StatementKind::StorageDead(_)
                    | StatementKind::Nop
                    | StatementKind::FakeRead(..)
                    | StatementKind::PlaceMention(..)
                    | StatementKind::AscribeUserType(..)
                    | StatementKind::Coverage(..)
                    | StatementKind::ConstEvalCounter => {}
                    #[allow(unreachable_patterns)]
                    _ => {
                        stmts.push(J::Obj(vec![
                            ("k".into(), s("otherstmt")),
                            ("dbg".into(), s(with_no_trimmed_paths!(format!("{:?}", st.kind)))),
                        ]));
                    }
                }
            }
            let term = data.terminator();
            let at = span_str(tcx, term.source_info.span);
            let exp = term.source_info.span.from_expansion();
            let mut t = match &term.kind {
                TerminatorKind::Goto { target } => {
                    vec![("k".into(), s("goto")), ("target".into(), self.bb(*target))]
                }
                TerminatorKind::SwitchInt { discr, targets } => {
                    let mut ts = Vec::new();
                    for (v, b) in targets.iter() {
                        ts.push(J::Arr(vec![J::Str(format!("{}", v)), self.bb(b)]));
                    }
                    vec![
                        ("k".into(), s("switch")),
                        ("o".into(), self.operand(discr)),
                        ("targets".into(), J::Arr(ts)),
                        ("otherwise".into(), self.bb(targets.otherwise())),
                    ]
                }
                TerminatorKind::Return => vec![("k".into(), s("return"))],
                TerminatorKind::Unreachable => vec![("k".into(), s("unreachable"))],
                TerminatorKind::UnwindResume => vec![("k".into(), s("resume"))],
                TerminatorKind::UnwindTerminate(_) => vec![("k".into(), s("abort"))],
                TerminatorKind::Drop { place, target, unwind, .. } => {
                    let pty = place.ty(&body.local_decls, tcx).ty;
                    vec![
                        ("k".into(), s("drop")),
                        ("p".into(), self.place(place)),
                        ("ty".into(), s(ty_str(pty))),
                        ("target".into(), self.bb(*target)),
                        ("unwind".into(), self.unwind(unwind)),
                    ]
                }
                TerminatorKind::Call { func, args, destination, target, unwind, fn_span, .. } => {
                    let mut o = vec![("k".into(), s("call"))];
                    match func.const_fn_def() {
                        Some((d, a)) => o.push(("fn".into(), self.fn_info(d, a))),
                        None => {
                            o.push(("fn".into(), J::Null));
                            o.push(("fnop".into(), self.operand(func)));
                        }
                    }
                    o.push((
                        "args".into(),
                        J::Arr(args.iter().map(|a| self.operand(&a.node)).collect()),
                    ));
                    o.push(("dest".into(), self.place(destination)));
                    o.push((
                        "target".into(),
                        match target {
                            Some(b) => self.bb(*b),
                            None => J::Null,
                        },
                    ));
                    o.push(("unwind".into(), self.unwind(unwind)));
                    o.push(("fn_at".into(), s(span_str(tcx, *fn_span))));
                    o
                }
                TerminatorKind::Assert { cond, expected, target, msg, unwind } => vec![
                    ("k".into(), s("assert")),
                    ("cond".into(), self.operand(cond)),
                    ("expected".into(), J::Bool(*expected)),
                    ("target".into(), self.bb(*target)),
                    ("unwind".into(), self.unwind(unwind)),
                    ("msg".into(), s(with_no_trimmed_paths!(format!("{:?}", msg)))),
                ],
                TerminatorKind::FalseEdge { real_target, .. } => {
                    vec![("k".into(), s("goto")), ("target".into(), self.bb(*real_target))]
                }
                TerminatorKind::FalseUnwind { real_target, .. } => {
                    vec![("k".into(), s("goto")), ("target".into(), self.bb(*real_target))]
                }
                other => vec![
                    ("k".into(), s("otherterm")),
                    ("dbg".into(), s(with_no_trimmed_paths!(format!("{:?}", other)))),
                ],
            };
            t.push(("at".into(), s(at)));
            t.push(("exp".into(), J::Bool(exp)));
            blocks.push(J::Obj(vec![
                ("cleanup".into(), J::Bool(data.is_cleanup)),
                ("stmts".into(), J::Arr(stmts)),
                ("term".into(), J::Obj(t)),
            ]));
        }
        let dk = tcx.def_kind(did);
        let mut o = vec![
            ("key".into(), s(path_str(tcx, did))),
            ("def_kind".into(), s(format!("{:?}", dk))),
            ("span".into(), s(span_str(tcx, body.span))),
            ("arg_count".into(), J::Num(body.arg_count as i128)),
            ("locals".into(), J::Arr(locals)),
            ("blocks".into(), J::Arr(blocks)),
            ("generics".into(), generic_names(tcx, did)),
        ];
        if !promoted && matches!(dk, DefKind::Fn | DefKind::AssocFn) {
            let sig = tcx.fn_sig(did).instantiate_identity().skip_norm_wip();
            o.push(("unsafe".into(), J::Bool(!sig.safety().is_safe())));
            o.push(("sig".into(), s(with_no_trimmed_paths!(format!("{}", sig)))));
            o.push(("vis".into(), s(format!("{:?}", tcx.visibility(did)))));
            if let Some(l) = did.as_local() {
                o.push(("reachable".into(), J::Bool(tcx.effective_visibilities(()).is_reachable(l))));
            }
            o.push(("name".into(), s(tcx.item_name(did).to_string())));
            if let Some(assoc) = tcx.opt_associated_item(did) {
                let cont = assoc.container_id(tcx);
                if let DefKind::Impl { of_trait } = tcx.def_kind(cont) {
                    let st = tcx.type_of(cont).instantiate_identity().skip_norm_wip();
                    o.push(("impl_self".into(), s(ty_str(st))));
                    if of_trait {
                        let tr = tcx.impl_trait_ref(cont).instantiate_identity().skip_norm_wip();
                        o.push(("impl_trait".into(), s(path_str(tcx, tr.def_id))));
                    }
                }
            }
        }
        J::Obj(o)
    }
}

fn collect_generics(tcx: TyCtxt<'_>, did: rustc_hir::def_id::DefId, out: &mut Vec<J>) {
    let g = tcx.generics_of(did);
    if let Some(p) = g.parent {
        collect_generics(tcx, p, out);
    }
    for p in &g.own_params {
        if matches!(p.kind, rustc_middle::ty::GenericParamDefKind::Type { .. }) {
            let n = p.name.to_string();
            if !n.starts_with('<') {
                out.push(s(n));
            }
        }
    }
}

fn generic_names(tcx: TyCtxt<'_>, did: rustc_hir::def_id::DefId) -> J {
    let mut out = Vec::new();
    collect_generics(tcx, did, &mut out);
    J::Arr(out)
}

fn crate_tables(tcx: TyCtxt<'_>) -> (J, J) {
    let mut adts = Vec::new();
    let mut impls = Vec::new();
    for id in tcx.hir_crate_items(()).free_items() {
        let did = id.owner_id.to_def_id();
        match tcx.def_kind(did) {
            DefKind::Struct | DefKind::Enum | DefKind::Union => {
                let adt = tcx.adt_def(did);
                let repr = adt.repr();
                let mut vars = Vec::new();
                let discrs: Vec<String> = if adt.is_enum() {
                    adt.discriminants(tcx).map(|(_, d)| format!("{}", d.val)).collect()
                } else {
                    Vec::new()
                };
                for (vidx, v) in adt.variants().iter().enumerate() {
                    let mut fs = Vec::new();
                    for f in v.fields.iter() {
                        let fty = tcx.type_of(f.did).instantiate_identity().skip_norm_wip();
                        fs.push(J::Obj(vec![
                            ("name".into(), s(f.name.to_string())),
                            ("ty".into(), s(ty_str(fty))),
                            ("vis".into(), s(format!("{:?}", f.vis))),
                        ]));
                    }
                    let mut vo = vec![
                        ("name".into(), s(v.name.to_string())),
                        ("fields".into(), J::Arr(fs)),
                    ];
                    if let Some(dv) = discrs.get(vidx) {
                        vo.push(("discr".into(), s(dv.clone())));
                    }
                    vars.push(J::Obj(vo));
                }
                adts.push(J::Obj(vec![
                    ("name".into(), s(path_str(tcx, did))),
                    ("kind".into(), s(format!("{:?}", tcx.def_kind(did)))),
                    ("repr_c".into(), J::Bool(repr.c())),
                    ("repr_transparent".into(), J::Bool(repr.transparent())),
                    ("repr_packed".into(), J::Bool(repr.packed())),
                    ("repr_int".into(), s(format!("{:?}", repr.int))),
                    ("repr_align".into(), s(format!("{:?}", repr.align))),
                    ("vis".into(), s(format!("{:?}", tcx.visibility(did)))),
                    ("reachable".into(), J::Bool(did.as_local().map_or(true, |l| tcx.effective_visibilities(()).is_reachable(l)))),
                    ("generics".into(), generic_names(tcx, did)),
                    ("variants".into(), J::Arr(vars)),
                    ("span".into(), s(span_str(tcx, tcx.def_span(did)))),
                ]));
            }
            DefKind::Impl { of_trait } => {
                let st = tcx.type_of(did).instantiate_identity().skip_norm_wip();
                let mut o = vec![
                    ("self_ty".into(), s(ty_str(st))),
                    ("generics".into(), generic_names(tcx, did)),
                    ("of_trait".into(), J::Bool(of_trait)),
                    ("span".into(), s(span_str(tcx, tcx.def_span(did)))),
                ];
                if of_trait {
                    let tr = tcx.impl_trait_ref(did).instantiate_identity().skip_norm_wip();
                    o.push(("trait".into(), s(path_str(tcx, tr.def_id))));
                    o.push(("trait_ref".into(), s(with_no_trimmed_paths!(format!("{}", tr)))));
                    let h = tcx.impl_trait_header(did);
                    o.push(("unsafe".into(), J::Bool(!h.safety.is_safe())));
                    o.push(("polarity".into(), s(format!("{:?}", h.polarity))));
                }
                let preds = tcx.predicates_of(did);
                let mut ps = Vec::new();
                for (p, _) in preds.predicates.iter() {
                    ps.push(s(with_no_trimmed_paths!(format!("{}", p))));
                }
                o.push(("preds".into(), J::Arr(ps)));
                let mut items = Vec::new();
                let mut assoc_tys = Vec::new();
                for it in tcx.associated_item_def_ids(did) {
                    items.push(s(tcx.item_name(*it).to_string()));
                    if matches!(tcx.def_kind(*it), DefKind::AssocTy) {
                        // `type End = SendEnd;` of a trait impl: the binding a strategy type is selected through
                        let t = tcx.type_of(*it).instantiate_identity().skip_norm_wip();
                        assoc_tys.push((tcx.item_name(*it).to_string(), s(ty_str(t))));
                    }
                }
                o.push(("items".into(), J::Arr(items)));
                o.push(("assoc_tys".into(), J::Obj(assoc_tys)));
                impls.push(J::Obj(o));
            }
            _ => {}
        }
    }
    (J::Arr(adts), J::Arr(impls))
}

impl rustc_driver::Callbacks for Cb {
    fn after_analysis<'tcx>(
        &mut self,
        _c: &rustc_interface::interface::Compiler,
        tcx: TyCtxt<'tcx>,
    ) -> Compilation {
        let cname = tcx.crate_name(LOCAL_CRATE).to_string();
        let want = std::env::var("KFACTS_CRATE").unwrap_or_else(|_| "kanal".into());
        if cname != want {
            return Compilation::Continue;
        }
        let out = match std::env::var("KFACTS_OUT") {
            Ok(o) => o,
            Err(_) => return Compilation::Continue,
        };
        let mut bodies = Vec::new();
        for ldid in tcx.hir_body_owners() {
            let did = ldid.to_def_id();
            let dk = tcx.def_kind(did);
            if matches!(dk, DefKind::Const { .. } | DefKind::AssocConst { .. }) {
                // named constants (e.g. `const BY_REF: bool = size_of::<T>() > size_of::<*mut T>()`): their CTFE body
                let body = tcx.mir_for_ctfe(did);
                let cx = Cx { tcx, body, env: TypingEnv::post_analysis(tcx, did) };
                bodies.push(cx.body_json_promoted(did));
                continue;
            }
            if !matches!(dk, DefKind::Fn | DefKind::AssocFn | DefKind::Closure) {
                continue;
            }
            let body = tcx.optimized_mir(did);
            let cx = Cx { tcx, body, env: TypingEnv::post_analysis(tcx, did) };
            let mut bj = cx.body_json(did);
            // promoted constants (e.g. `&FutureState::Waiting`) as small bodies of their own
            let proms = tcx.promoted_mir(did);
            let mut pj = Vec::new();
            for pb in proms.iter() {
                let pcx = Cx { tcx, body: pb, env: TypingEnv::post_analysis(tcx, did) };
                pj.push(pcx.body_json_promoted(did));
            }
            if let J::Obj(ref mut o) = bj {
                o.push(("promoted".into(), J::Arr(pj)));
            }
            bodies.push(bj);
        }
        let (adts, impls) = crate_tables(tcx);
        let mut feats = Vec::new();
        for (name, val) in tcx.sess.config.iter() {
            if name.as_str() == "feature" {
                if let Some(v) = val {
                    feats.push(s(v.to_string()));
                }
            }
        }
        let root = J::Obj(vec![
            ("crate".into(), s(cname)),
            ("nonce".into(), s(std::env::var("KFACTS_NONCE").unwrap_or_default())),
            ("rustc".into(), s(option_env!("CFG_VERSION").unwrap_or("nightly").to_string())),
            ("features".into(), J::Arr(feats)),
            ("bodies".into(), J::Arr(bodies)),
            ("adts".into(), adts),
            ("impls".into(), impls),
        ]);
        let mut text = String::new();
        root.write(&mut text);
        std::fs::write(&out, text).expect("kfacts: cannot write fact file");
        Compilation::Continue
    }
}

fn main() {
    let mut args: Vec<String> = std::env::args().collect();
    // RUSTC_WORKSPACE_WRAPPER passes the real rustc as argv[1]
    if args.len() > 1 && (args[1].ends_with("rustc") || args[1].contains("/rustc")) {
        args.remove(1);
    }
    rustc_driver::run_compiler(&args, &mut Cb);
}
